//go:build verif

package verifharness

import (
	"fmt"
	"strings"
	"testing"

	"github.com/protolambda/ztyp/tree"
	"github.com/protolambda/ztyp/view"
)

// all generalized indices of existing nodes of a backing (root = 1)
func nodeGindices(n tree.Node, g uint64, out *[]uint64) {
	*out = append(*out, g)
	if p, ok := n.(*tree.PairNode); ok && g < 1<<62 {
		nodeGindices(p.LeftChild, 2*g, out)
		nodeGindices(p.RightChild, 2*g+1, out)
	}
}

// one read or mutation on a view (mirrors ocaml/hist.ml single_op)
func singleOp(t *Ty, vw view.View, o hop, h tree.HashFn) string {
	return guard(func() string {
		switch o.kind {
		case "ro", "ix":
			obs := iterObsN(t, vw, h, 1)
			for _, kv := range strings.Split(obs, " ") {
				if strings.HasPrefix(kv, o.kind+"=") {
					res := kv[len(o.kind)+1:]
					if cv, ok := vw.(*view.ContainerView); ok && o.kind == "ro" {
						// the bulk getter is the same walk: an error exactly when the read-only
						// iteration reports one, otherwise every field, equal to what Get returns
						fv, err := cv.FieldValues()
						hasErr := strings.Contains(res, "ERR")
						if (err != nil) != hasErr {
							return "FIELDVALUES-MISMATCH"
						}
						if err == nil {
							if len(fv) != len(t.Fields) {
								return "FIELDVALUES-MISMATCH"
							}
							for i, x := range fv {
								gv, gerr := cv.Get(uint64(i))
								if x == nil || gerr != nil || x.HashTreeRoot(h) != gv.HashTreeRoot(h) {
									return "FIELDVALUES-MISMATCH"
								}
							}
						}
					}
					return res
				}
			}
			return "ERR"
		case "htr", "ser", "blen", "len", "elem", "sel":
			cnt := 0
			s := &hstate{h: h, count: &cnt}
			s.push(t, vw)
			o.h = 0
			return s.exec(o)
		case "setsumm":
			// the value written is itself summarised: a view over the single leaf that holds the
			// root of (o.src.t, o.src.v); the destination has been hashed before
			sv, err := buildView(o.src.t, o.src.v)
			if err != nil {
				return "ERR"
			}
			r := sv.HashTreeRoot(h)
			src, err := o.src.t.Def().ViewFromBacking(&r, nil)
			if err != nil {
				return "ERR"
			}
			vw.HashTreeRoot(h)
			switch x := vw.(type) {
			case *view.ComplexVectorView:
				err = x.Set(o.i, src)
			case *view.ComplexListView:
				err = x.Set(o.i, src)
			case *view.ContainerView:
				err = x.Set(o.i, src)
			default:
				return "ERR"
			}
			if err != nil {
				return "ERR"
			}
			ser := "ERR"
			if d, err := serializeView(vw); err == nil {
				ser = hexBytes(d)
			}
			return "OK_" + rootHex(vw.HashTreeRoot(h)) + "_" + ser
		}
		cnt := 0
		s := &hstate{h: h, count: &cnt}
		s.push(t, vw)
		o.h = 0
		r := s.exec(o)
		if r != "OK" {
			return r
		}
		ser := "ERR"
		if d, err := serializeView(vw); err == nil {
			ser = hexBytes(d)
		}
		return "OK_" + rootHex(vw.HashTreeRoot(h)) + "_" + ser
	})
}

func c12OpSexp(o hop) string {
	switch o.kind {
	case "ro", "ix", "htr", "ser", "blen", "len", "sel", "pop":
		return "(" + o.kind + ")"
	case "elem":
		return "(elem " + hx(o.i) + ")"
	case "setsumm":
		return "(setsumm " + hx(o.i) + " " + hx(uint64(o.h)) + " " + o.src.Sexp() + ")"
	case "set":
		return "(set " + hx(o.i) + " " + o.src.Sexp() + ")"
	case "append":
		return "(append " + o.src.Sexp() + ")"
	case "change":
		return "(change " + hx(o.i) + " " + o.src.Sexp() + ")"
	}
	panic("bad c12 op")
}

func TestC12(t *testing.T) {
	out := openOut(t, "C12")
	defer out.close()
	n := 90
	if thorough() {
		n = 2500
	}
	withCfg("sha", func(h tree.HashFn) {
		emitSets := func(ty *Ty, v *Val, sets [][]uint64, ops []hop) {
			for _, set := range sets {
				gs := make([]string, len(set))
				for i, x := range set {
					gs[i] = hx(x)
				}
				for _, o := range ops {
					obs := guard(func() string {
						// a fresh full view per case (mutations must not accumulate)
						fv, err := buildView(ty, v)
						if err != nil {
							return "summ=ERR"
						}
						back := fv.Backing()
						for _, x := range set {
							link, err := tree.SummaryInto(back, tree.Gindex64(x), h)
							if err != nil {
								return "summ=ERR"
							}
							back, err = link()
							if err != nil {
								return "summ=ERR"
							}
						}
						pv, err := ty.Def().ViewFromBacking(back, nil)
						if err != nil {
							return "summ=ERR"
						}
						proot := rootHex(rawRoot(back, h))
						fullRes := singleOp(ty, fv, o, h)
						partRes := singleOp(ty, pv, o, h)
						return fmt.Sprintf("summ=OK proot=%s full=%s part=%s", proot, fullRes, partRes)
					})
					if obs == "PANIC" {
						obs = "summ=PANIC"
					}
					out.emit("p"+fmt.Sprint(len(set)), "c12", []string{"sha", ty.Sexp(), v.Sexp(), "(" + strings.Join(gs, " ") + ")", c12OpSexp(o)}, obs)
				}
			}
		}
		g := &gen{r: newRng(12), noBool: true, maxElem: 8}
		hg := &histGen{g: g, r: g.r}
		for k := 0; k < n; k++ {
			ty := g.ty(1 + g.r.Intn(2))
			if !isComposite(ty) {
				continue
			}
			v := g.val(ty)
			full, err := buildView(ty, v)
			if err != nil {
				continue
			}
			var gis []uint64
			nodeGindices(full.Backing(), 1, &gis)
			// sets of 1..3 positions: exhaustive for small backings, sampled otherwise
			var sets [][]uint64
			if len(gis) <= 15 {
				for a := 0; a < len(gis); a++ {
					sets = append(sets, []uint64{gis[a]})
					for b := a + 1; b < len(gis); b++ {
						sets = append(sets, []uint64{gis[a], gis[b]})
						if thorough() {
							for c := b + 1; c < len(gis); c++ {
								sets = append(sets, []uint64{gis[a], gis[b], gis[c]})
							}
						}
					}
				}
			} else {
				for j := 0; j < 25; j++ {
					m := 1 + g.r.Intn(3)
					var s []uint64
					for q := 0; q < m; q++ {
						s = append(s, gis[g.r.Intn(len(gis))])
					}
					sets = append(sets, s)
				}
			}
			if !thorough() && len(sets) > 40 {
				g.r.Shuffle(len(sets), func(i, j int) { sets[i], sets[j] = sets[j], sets[i] })
				sets = sets[:40]
			}
			// the operations tried on each partial view
			cnt := 0
			probe := &hstate{h: h, count: &cnt}
			probe.push(ty, full)
			ln := currentLen(full, ty)
			ops := []hop{{kind: "htr"}, {kind: "ser"}, {kind: "blen"}, {kind: "len"}, {kind: "ro"}, {kind: "ix"}}
			if ty.Kind == "union" {
				ops = append(ops, hop{kind: "sel"})
				ops = ops[:3]
				ops = append(ops, hop{kind: "sel"})
			} else {
				for _, i := range []uint64{0, ln / 2, ln - 1, ln} {
					ops = append(ops, hop{kind: "elem", i: i})
				}
			}
			for j := 0; j < 6; j++ {
				o := hg.next(probe)
				if o.kind == "set" || o.kind == "append" || o.kind == "pop" || o.kind == "change" {
					if o.h == 0 && o.src.kind != "h" {
						ops = append(ops, o)
					}
				}
			}
			// writes of a summarised value: the element's own summary, its sibling's, a fresh one
			if (ty.Kind == "vec" || ty.Kind == "list" || ty.Kind == "cont") && !isPackedOrBits(ty) && ln > 0 {
				var depth uint64
				switch ty.Kind {
				case "vec":
					depth = uint64(tree.CoverDepth(ty.N))
				case "list":
					depth = uint64(tree.CoverDepth(ty.N)) + 1
				default:
					depth = uint64(tree.CoverDepth(uint64(len(ty.Fields))))
				}
				if depth < 40 {
					for j := 0; j < 4; j++ {
						i := uint64(g.r.Int63n(int64(ln)))
						et := elemTyOf(ty, i)
						if et == nil || !isComposite(et) {
							continue
						}
						var sv *Val
						switch k := i ^ 1; {
						case j%2 == 0 && k < ln && elemTyOf(ty, k) != nil && elemTyOf(ty, k).Sexp() == et.Sexp():
							sv = v.Seq[k] // the sibling's value
						case j == 1:
							sv = v.Seq[i] // its own
						default:
							sv = g.val(et)
						}
						ops = append(ops, hop{kind: "setsumm", i: i, h: int(uint64(1)<<depth | i), src: srcSpec{kind: "lit", t: et, v: sv}})
					}
				}
			}
			emitSets(ty, v, sets, ops)
		}
		// lists whose tail is all zero under a summary that therefore EQUALS a zero-subtree root:
		// appends / pops / sets there must fail or act exactly as on the full tree
		gz := &gen{r: newRng(1212), noBool: true, maxElem: 3}
		for _, w := range []uint64{1, 2, 8, 32} {
			e := &Ty{Kind: "u", N: w}
			per := 32 / w
			for _, lim := range []uint64{4 * per, 1 << 20} {
				ty := &Ty{Kind: "list", Elem: e, N: lim}
				for _, nz := range []uint64{0, per, 2 * per} {
					for _, z := range []uint64{1, per - 1, per + 1} {
						if z == 0 || (nz+z)%per == 0 || nz+z > lim {
							continue
						}
						v := &Val{Kind: "seq"}
						for i := uint64(0); i < nz; i++ {
							x := gz.val(e)
							if x.U.Sign() == 0 {
								x.U.SetInt64(1)
							}
							v.Seq = append(v.Seq, x)
						}
						for i := uint64(0); i < z; i++ {
							v.Seq = append(v.Seq, &Val{Kind: "n", U: bigInt(0)})
						}
						full, err := buildView(ty, v)
						if err != nil {
							continue
						}
						var gis []uint64
						nodeGindices(full.Backing(), 1, &gis)
						var sets [][]uint64
						for _, gi := range gis {
							sets = append(sets, []uint64{gi})
						}
						if !thorough() && len(sets) > 24 {
							sets = sets[:24]
						}
						lit := srcSpec{kind: "lit", t: e, v: &Val{Kind: "n", U: bigInt(7)}}
						emitSets(ty, v, sets, []hop{{kind: "append", src: lit}, {kind: "pop"}, {kind: "set", i: nz + z - 1, src: lit}, {kind: "elem", i: nz + z - 1}, {kind: "ro"}})
					}
				}
			}
		}
		bl := &Ty{Kind: "bitlist", N: 600}
		for _, ln := range []int{3, 255, 257, 300} {
			v := &Val{Kind: "bits", Bits: make([]bool, ln)}
			v.Bits[0] = true
			full, err := buildView(bl, v)
			if err != nil {
				continue
			}
			var gis []uint64
			nodeGindices(full.Backing(), 1, &gis)
			var sets [][]uint64
			for _, gi := range gis {
				sets = append(sets, []uint64{gi})
			}
			litb := srcSpec{kind: "lit", t: &Ty{Kind: "bool"}, v: &Val{Kind: "b", B: true}}
			emitSets(bl, v, sets, []hop{{kind: "append", src: litb}, {kind: "pop"}, {kind: "set", i: uint64(ln - 1), src: litb}, {kind: "elem", i: uint64(ln - 1)}})
		}
	})
}
