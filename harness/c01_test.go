//go:build verif

package verifharness

import (
	"fmt"
	"testing"

	"github.com/protolambda/ztyp/tree"
	"github.com/protolambda/ztyp/view"
)

// mutChain rebuilds value v of type t from the type's default by top-level mutations
// (mirrors driver_ops.ml mut_chain).
func mutChain(t *Ty, v *Val) (out view.View, err error) {
	d := t.Def().Default(nil)
	out = d
	switch t.Kind {
	case "list":
		defer func() {
			if err == nil && uint64(len(v.Seq)) < t.N && len(v.Seq) > 0 {
				// one element too many (a copy of the last one), then back
				last := v.Seq[len(v.Seq)-1]
				if t.Elem.IsBasicElem() {
					if e2 := out.(*view.BasicListView).Append(basicView(t.Elem, last)); e2 != nil {
						err = e2
						return
					}
					err = out.(*view.BasicListView).Pop()
				} else {
					x, e2 := buildView(t.Elem, last)
					if e2 != nil {
						err = e2
						return
					}
					if e2 := out.(*view.ComplexListView).Append(x); e2 != nil {
						err = e2
						return
					}
					err = out.(*view.ComplexListView).Pop()
				}
			}
		}()
		for _, e := range v.Seq {
			if t.Elem.IsBasicElem() {
				if err := d.(*view.BasicListView).Append(basicView(t.Elem, e)); err != nil {
					return nil, err
				}
			} else {
				x, err := buildView(t.Elem, e)
				if err != nil {
					return nil, err
				}
				if err := d.(*view.ComplexListView).Append(x); err != nil {
					return nil, err
				}
			}
		}
	case "bitlist":
		for _, b := range v.Bits {
			if err := d.(*view.BitListView).Append(view.BoolView(b)); err != nil {
				return nil, err
			}
		}
		// one element too many, then back (when the limit allows)
		if uint64(len(v.Bits)) < t.N {
			if err := d.(*view.BitListView).Append(view.BoolView(true)); err != nil {
				return nil, err
			}
			if err := d.(*view.BitListView).Pop(); err != nil {
				return nil, err
			}
		}
	case "vec":
		for i, e := range v.Seq {
			if t.Elem.IsBasicElem() {
				if err := d.(*view.BasicVectorView).Set(uint64(i), basicView(t.Elem, e)); err != nil {
					return nil, err
				}
			} else {
				x, err := buildView(t.Elem, e)
				if err != nil {
					return nil, err
				}
				if err := d.(*view.ComplexVectorView).Set(uint64(i), x); err != nil {
					return nil, err
				}
			}
		}
	case "bitvec":
		for i, b := range v.Bits {
			if err := d.(*view.BitVectorView).Set(uint64(i), view.BoolView(b)); err != nil {
				return nil, err
			}
		}
	case "cont":
		for i, e := range v.Seq {
			x, err := buildView(t.Fields[i], e)
			if err != nil {
				return nil, err
			}
			if err := d.(*view.ContainerView).Set(uint64(i), x); err != nil {
				return nil, err
			}
		}
	case "union":
		var x view.View
		if v.Inner != nil {
			var err error
			x, err = buildView(t.OptionTy(v.Sel), v.Inner)
			if err != nil {
				return nil, err
			}
		}
		if err := d.(*view.UnionView).Change(uint8(v.Sel), x); err != nil {
			return nil, err
		}
	default:
		return buildView(t, v)
	}
	return d, nil
}

// newView is the type's default through the typed New() constructor.
func newView(t *Ty) view.View {
	switch d := t.Def().(type) {
	case view.UintMeta:
		return d.New()
	case view.BoolMeta:
		return d.New()
	case view.SmallByteVecMeta:
		return d.New()
	case *view.BasicListTypeDef:
		return d.New()
	case *view.BasicVectorTypeDef:
		return d.New()
	case *view.BitListTypeDef:
		return d.New()
	case *view.BitVectorTypeDef:
		return d.New()
	case *view.ComplexListTypeDef:
		return d.New()
	case *view.ComplexVectorTypeDef:
		return d.New()
	case *view.ContainerTypeDef:
		return d.New()
	case *view.UnionTypeDef:
		return d.New()
	}
	return t.Def().Default(nil)
}

func c01Obs(t *Ty, v *Val, route string, h tree.HashFn) string {
	return guard(func() string {
		if route == "default" || route == "new" {
			d := t.Def().Default(nil)
			if route == "new" {
				d = newView(t)
			}
			r := d.HashTreeRoot(h)
			dn := t.Def().DefaultNode().MerkleRoot(h)
			return "root=" + rootHex(r) + " dnode=" + rootHex(dn)
		}
		var vw view.View
		var err error
		switch route {
		case "ctor":
			vw, err = buildView(t, v)
		case "deser":
			vw, err = buildView(t, v)
			if err == nil {
				var data []byte
				data, err = serializeView(vw)
				if err == nil {
					vw, err = deserialize(t, data)
				}
			}
		case "mut":
			vw, err = mutChain(t, v)
		}
		if err != nil {
			return "root=ERR"
		}
		return "root=" + rootHex(vw.HashTreeRoot(h))
	})
}

func guardKV(f func() string) string {
	s := guard(f)
	if s == "PANIC" {
		return "root=PANIC"
	}
	return s
}

func TestC01(t *testing.T) {
	out := openOut(t, "C01")
	defer out.close()
	n := 450
	if thorough() {
		n = 12000
	}
	routes := []string{"default", "ctor", "deser", "mut"}
	run := func(tag string, ty *Ty, v *Val, cfg string) {
		withCfg(cfg, func(h tree.HashFn) {
			for _, route := range routes {
				vs := "-"
				if route != "default" {
					vs = v.Sexp()
				}
				obs := guardKV(func() string { return c01Obs(ty, v, route, h) })
				out.emit(tag, "c01", []string{cfg, ty.Sexp(), vs, route}, obs)
				if route == "default" {
					// the typed New() constructors are the same default (same model case)
					obs := guardKV(func() string { return c01Obs(ty, v, "new", h) })
					out.emit(tag, "c01", []string{cfg, ty.Sexp(), vs, route}, obs)
				}
			}
		})
	}
	// fixed regression corpus: zero-element constructors, None-first unions, packing boundaries
	fixed := []*Ty{
		{Kind: "list", Elem: &Ty{Kind: "u", N: 8}, N: 4},
		{Kind: "list", Elem: &Ty{Kind: "u", N: 8}, N: 0},
		{Kind: "list", Elem: &Ty{Kind: "root"}, N: 5},
		{Kind: "bitlist", N: 0}, {Kind: "bitlist", N: 9}, {Kind: "bitlist", N: 256}, {Kind: "bitlist", N: 257},
		{Kind: "union", None: true, Fields: []*Ty{{Kind: "u", N: 8}}},
		{Kind: "union", None: false, Fields: []*Ty{{Kind: "u", N: 2}, {Kind: "bitvec", N: 3}}},
		{Kind: "vec", Elem: &Ty{Kind: "u", N: 1}, N: 33},
		{Kind: "vec", Elem: &Ty{Kind: "u", N: 32}, N: 3},
		{Kind: "list", Elem: &Ty{Kind: "u", N: 1}, N: 1 << 40},
		{Kind: "list", Elem: &Ty{Kind: "cont", Fields: []*Ty{{Kind: "u", N: 8}, {Kind: "bytes", N: 4}}}, N: 1 << 32},
		{Kind: "cont", Fields: []*Ty{{Kind: "u", N: 1}, {Kind: "list", Elem: &Ty{Kind: "u", N: 1}, N: 8}, {Kind: "bitlist", N: 3}}},
		// limits whose byte size (limit x element size) does not fit 64 bits: the chunk count and
		// the tree depth must not be derived from a wrapped product
		{Kind: "list", Elem: &Ty{Kind: "u", N: 8}, N: 1 << 61},
		{Kind: "list", Elem: &Ty{Kind: "u", N: 8}, N: 1<<61 + 5},
		{Kind: "list", Elem: &Ty{Kind: "u", N: 4}, N: 1 << 62},
		{Kind: "list", Elem: &Ty{Kind: "u", N: 2}, N: 1 << 63},
		{Kind: "list", Elem: &Ty{Kind: "u", N: 32}, N: 1 << 59},
		{Kind: "list", Elem: &Ty{Kind: "root"}, N: 1 << 60},
		{Kind: "bitlist", N: 1 << 63},
	}
	for ci, cfg := range []string{"sha", "alt"} {
		g := &gen{r: newRng(int64(100 + ci)), noBool: true, maxElem: 40}
		for _, ty := range wideContainers() {
			run("corpus", ty, g.val(ty), cfg)
		}
		for _, ty := range fixed {
			for k := 0; k < 3; k++ {
				run("corpus", ty, g.val(ty), cfg)
			}
			// empty value explicitly
			run("corpus", ty, emptyVal(ty, g), cfg)
		}
		for k := 0; k < n; k++ {
			depth := 1 + g.r.Intn(3)
			if thorough() && g.r.Intn(8) == 0 {
				depth = 4
			}
			ty := g.ty(depth)
			run("gen", ty, g.val(ty), cfg)
		}
		// known finding D3: bool sequences are hashed unpacked
		gb := &gen{r: newRng(int64(200 + ci)), maxElem: 40}
		for k := 0; k < 12; k++ {
			ty := &Ty{Kind: []string{"list", "vec"}[k%2], Elem: &Ty{Kind: "bool"}, N: uint64(2 + gb.r.Intn(40))}
			if k%3 == 0 {
				ty = &Ty{Kind: "cont", Fields: []*Ty{{Kind: "u", N: 8}, ty}}
			}
			run("kf-D3", ty, nonEmptyVal(ty, gb), cfg)
		}
	}
	// a chain of mutations in which one view object is used as a cursor over several trees:
	// append, re-point the same view at another list of the same length (SetBacking), append
	// again, ... (scripted pattern, then random histories with re-pointing)
	withCfg("sha", func(h tree.HashFn) {
		gc := &gen{r: newRng(111), noBool: true, maxElem: 9}
		lists := []*Ty{
			{Kind: "list", Elem: &Ty{Kind: "u", N: 1}, N: 80}, {Kind: "list", Elem: &Ty{Kind: "u", N: 2}, N: 1 << 20},
			{Kind: "list", Elem: &Ty{Kind: "u", N: 8}, N: 12}, {Kind: "list", Elem: &Ty{Kind: "u", N: 32}, N: 12},
			{Kind: "bitlist", N: 300}, {Kind: "bitlist", N: 1 << 30},
			{Kind: "list", Elem: &Ty{Kind: "cont", Fields: []*Ty{{Kind: "u", N: 1}, {Kind: "u", N: 8}}}, N: 12},
			{Kind: "list", Elem: &Ty{Kind: "list", Elem: &Ty{Kind: "u", N: 1}, N: 4}, N: 1 << 32},
		}
		rounds := 6
		if thorough() {
			rounds = 60
		}
		for _, ty := range lists {
			et := ty.Elem
			if ty.Kind == "bitlist" {
				et = &Ty{Kind: "bool"}
			}
			for k := 0; k < rounds; k++ {
				a := gc.val(ty)
				b := gc.val(ty)
				// the other list is as long as this one will be after its first append (or equally
				// long, or one shorter)
				d := k%3 - 1 // -1, 0, +1 relative to len(a)+1
				if ty.Kind == "bitlist" {
					for len(b.Bits) < len(a.Bits)+1+d {
						b.Bits = append(b.Bits, gc.r.Intn(2) == 0)
					}
					if n := len(a.Bits) + 1 + d; n >= 0 && n < len(b.Bits) {
						b.Bits = b.Bits[:n]
					}
				} else {
					for len(b.Seq) < len(a.Seq)+1+d {
						b.Seq = append(b.Seq, gc.val(et))
					}
					if n := len(a.Seq) + 1 + d; n >= 0 && n < len(b.Seq) {
						b.Seq = b.Seq[:n]
					}
				}
				if uint64(len(b.Seq)) > ty.N || uint64(len(b.Bits)) > ty.N {
					continue
				}
				lit := func() srcSpec { return srcSpec{kind: "lit", t: et, v: gc.val(et)} }
				ops := []hop{{kind: "new", t: ty, v: b}, {kind: "append", h: 0, src: lit()}, {kind: "repoint", h: 0, i: 1},
					{kind: "append", h: 0, src: lit()}, {kind: "htr", h: 0}, {kind: "append", h: 1, src: lit()}, {kind: "repoint", h: 1, i: 0},
					{kind: "pop", h: 1}, {kind: "append", h: 1, src: lit()}, {kind: "append", h: 0, src: lit()}, {kind: "htr", h: 1}, {kind: "htr", h: 0}, {kind: "ser", h: 0}, {kind: "len", h: 0}}
				if k%2 == 1 {
					ops = append([]hop{{kind: "htr", h: 0}}, ops...)
				}
				s := &hstate{h: h, count: &hashCalls}
				root, err := buildView(ty, a)
				if err != nil {
					continue
				}
				s.push(ty, root)
				histCase(out, "cursor", "sha", ty, a, "ctor", ops, runScript(s, ops))
			}
		}
	})
	// a mutation that its owner refuses: a sub-view whose slot in the parent is gone (the parent
	// was popped) is written to - the parent's hook fails - and used again afterwards: the
	// refused mutation leaves it the value it had, with the root of that value
	withCfg("sha", func(h tree.HashFn) {
		gs := &gen{r: newRng(112), noBool: true, maxElem: 6}
		inners := []*Ty{
			{Kind: "list", Elem: &Ty{Kind: "u", N: 1}, N: 40}, {Kind: "list", Elem: &Ty{Kind: "u", N: 8}, N: 9},
			{Kind: "bitlist", N: 300}, {Kind: "list", Elem: &Ty{Kind: "cont", Fields: []*Ty{{Kind: "u", N: 2}, {Kind: "u", N: 2}}}, N: 6},
		}
		// two live sub-views of one slot; the second writes a value whose backing node it
		// already holds (a depth-0 composite around a bool: the shared true / false leaves), or
		// writes its own backing back: the write lands in the parent all the same
		{
			bt := &Ty{Kind: "bool"}
			one := &Ty{Kind: "cont", Fields: []*Ty{bt}}
			bl := func(b bool) srcSpec { return srcSpec{kind: "lit", t: bt, v: &Val{Kind: "b", B: b}} }
			for _, outer := range []*Ty{{Kind: "vec", Elem: one, N: 2}, {Kind: "list", Elem: one, N: 3}, {Kind: "cont", Fields: []*Ty{one, {Kind: "u", N: 8}}},
				{Kind: "vec", Elem: &Ty{Kind: "vec", Elem: one, N: 1}, N: 2}} {
				for _, first := range []bool{false, true} {
					v := gs.val(outer)
					var ops []hop
					if outer.Elem != nil && outer.Elem.Kind == "vec" {
						ops = []hop{{kind: "get", h: 0, i: 0}, {kind: "get", h: 0, i: 0}, {kind: "get", h: 1, i: 0}, {kind: "get", h: 2, i: 0},
							{kind: "set", h: 3, i: 0, src: bl(!first)}, {kind: "htr", h: 0}, {kind: "set", h: 4, i: 0, src: bl(first)}, {kind: "set", h: 4, i: 0, src: bl(first)},
							{kind: "htr", h: 0}, {kind: "ser", h: 0}, {kind: "set", h: 3, i: 0, src: bl(!first)}, {kind: "htr", h: 0}, {kind: "ser", h: 0}}
					} else {
						ops = []hop{{kind: "get", h: 0, i: 0}, {kind: "get", h: 0, i: 0}, {kind: "set", h: 2, i: 0, src: bl(first)}, {kind: "set", h: 1, i: 0, src: bl(!first)}, {kind: "htr", h: 0},
							{kind: "set", h: 2, i: 0, src: bl(first)}, {kind: "htr", h: 0}, {kind: "ser", h: 0}, {kind: "set", h: 1, i: 0, src: bl(!first)}, {kind: "htr", h: 0}, {kind: "ser", h: 0}, {kind: "htr", h: 1}, {kind: "htr", h: 2}}
					}
					s := &hstate{h: h, count: &hashCalls}
					root, err := buildView(outer, v)
					if err != nil {
						continue
					}
					s.push(outer, root)
					histCase(out, "stale2", "sha", outer, v, "ctor", ops, runScript(s, ops))
				}
			}
		}
		rounds := 5
		if thorough() {
			rounds = 60
		}
		for _, in := range inners {
			et := in.Elem
			if in.Kind == "bitlist" {
				et = &Ty{Kind: "bool"}
			}
			outer := &Ty{Kind: "list", Elem: in, N: 4}
			for k := 0; k < rounds; k++ {
				v := &Val{Kind: "seq", Seq: []*Val{gs.val(in), gs.val(in)}}
				lit := func() srcSpec { return srcSpec{kind: "lit", t: et, v: gs.val(et)} }
				ops := []hop{{kind: "get", h: 0, i: 1}, {kind: "htr", h: 1}, {kind: "pop", h: 0}, {kind: "append", h: 1, src: lit()},
					{kind: "htr", h: 1}, {kind: "len", h: 1}, {kind: "ser", h: 1}, {kind: "pop", h: 1}, {kind: "htr", h: 1}, {kind: "copy", h: 1}, {kind: "htr", h: 2},
					{kind: "append", h: 2, src: lit()}, {kind: "htr", h: 2}, {kind: "ser", h: 2}, {kind: "htr", h: 0}, {kind: "ser", h: 0}}
				if k%2 == 1 {
					ops[3], ops[7] = ops[7], ops[3]
				}
				s := &hstate{h: h, count: &hashCalls}
				root, err := buildView(outer, v)
				if err != nil {
					continue
				}
				s.push(outer, root)
				histCase(out, "stale", "sha", outer, v, "ctor", ops, runScript(s, ops))
			}
		}
	})
	if out.n == 0 {
		t.Fatal("no cases")
	}
	fmt.Println("C01 cases:", out.n)
}

// emptyVal: the value with every top-level collection empty
func emptyVal(t *Ty, g *gen) *Val {
	switch t.Kind {
	case "list":
		return &Val{Kind: "seq"}
	case "bitlist":
		return &Val{Kind: "bits"}
	}
	return g.val(t)
}

func nonEmptyVal(t *Ty, g *gen) *Val {
	for i := 0; i < 50; i++ {
		v := g.val(t)
		if t.Kind == "list" && len(v.Seq) < 2 {
			continue
		}
		if t.Kind == "cont" && t.Fields[1].Kind == "list" && len(v.Seq[1].Seq) < 2 {
			continue
		}
		return v
	}
	return g.val(t)
}
