module verifharness

go 1.16

require (
	github.com/holiman/uint256 v1.2.0
	github.com/protolambda/ztyp v0.0.0
)

replace github.com/protolambda/ztyp => /repo
