//go:build verif

package verifharness

import (
	"bytes"
	"strings"
	"testing"

	"github.com/protolambda/ztyp/codec"
	"github.com/protolambda/ztyp/view"
)

func c09Obs(t *Ty, v *Val, prev *Val) string {
	enc, blen, dec := "ERR", "ERR", "ERR"
	var data []byte
	ok := false
	func() {
		defer func() {
			if r := recover(); r != nil {
				enc = "PANIC"
			}
		}()
		f := flatOf(t, v)
		d, err := flatEncode(f)
		if err == nil {
			enc = hexBytes(d)
			data = d
			ok = true
		}
		blen = hx(f.ByteLength())
	}()
	if ok {
		func() {
			defer func() {
				if r := recover(); r != nil {
					dec = "PANIC"
				}
			}()
			var dst Flat
			if prev == nil {
				dst = newFlat(t)
			} else {
				dst = flatOf(t, prev)
				// ... which has itself been decoded into before
				if pe, err := flatEncode(dst); err == nil {
					_ = flatDecode(dst, pe)
				}
			}
			if err := flatDecode(dst, data); err == nil {
				dec = strings.ReplaceAll(dst.Read(), " ", "_")
			}
		}()
	}
	return joinKV("enc="+enc, "blen="+blen, "dec="+dec)
}

type lenOnly uint64

func (l lenOnly) ByteLength() uint64 { return uint64(l) }

// basicEncDec: Encode() of the library's basic values and Decode() back (also with a byte
// missing / a byte too many)
func basicEncDec(t *Ty, v *Val) string {
	var enc []byte
	var dec func(x []byte) (string, error)
	switch {
	case t.Kind == "bool":
		b := view.BoolView(v.B)
		enc, _ = b.Encode()
		dec = func(x []byte) (string, error) {
			var d view.BoolView
			err := d.Decode(x)
			return "(b_" + b01(bool(d)) + ")", err
		}
	case t.N == 1:
		b := view.Uint8View(v.U.Uint64())
		enc, _ = b.Encode()
		dec = func(x []byte) (string, error) {
			var d view.Uint8View
			err := d.Decode(x)
			return "(n_" + hx(uint64(d)) + ")", err
		}
	case t.N == 2:
		b := view.Uint16View(v.U.Uint64())
		enc, _ = b.Encode()
		dec = func(x []byte) (string, error) {
			var d view.Uint16View
			err := d.Decode(x)
			return "(n_" + hx(uint64(d)) + ")", err
		}
	case t.N == 4:
		b := view.Uint32View(v.U.Uint64())
		enc, _ = b.Encode()
		dec = func(x []byte) (string, error) {
			var d view.Uint32View
			err := d.Decode(x)
			return "(n_" + hx(uint64(d)) + ")", err
		}
	case t.N == 8:
		b := view.Uint64View(v.U.Uint64())
		enc, _ = b.Encode()
		dec = func(x []byte) (string, error) {
			var d view.Uint64View
			err := d.Decode(x)
			return "(n_" + hx(uint64(d)) + ")", err
		}
	default:
		b := u256FromBig(v.U)
		enc, _ = b.Encode()
		dec = func(x []byte) (string, error) {
			var d view.Uint256View
			err := d.Decode(x)
			s, _ := readBasic(nil, d)
			return strings.ReplaceAll(s, " ", "_"), err
		}
	}
	r := func(x []byte) string {
		s, err := dec(x)
		if err != nil {
			return "ERR"
		}
		return s
	}
	short := "ERR"
	if len(enc) > 0 {
		short = r(enc[1:])
	}
	return joinKV("enc="+hexBytes(enc), "dec="+r(enc), "short="+short, "long="+r(append(append([]byte{}, enc...), 0)))
}

func TestC09(t *testing.T) {
	out := openOut(t, "C09")
	defer out.close()
	{
		g := &gen{r: newRng(90)}
		for k := 0; k < 400; k++ {
			ty := g.leafTy()
			if ty.Kind != "u" && ty.Kind != "bool" {
				continue
			}
			v := g.val(ty)
			out.emit("encdec", "encdec", []string{ty.Sexp(), v.Sexp()}, guard(func() string { return basicEncDec(ty, v) }))
		}
		// Decode of arbitrary bytes (bool bytes 0..255, wrong lengths)
		for b := 0; b < 256; b++ {
			x := []byte{byte(b)}
			out.emit("decraw", "decraw", []string{"bool", hexBytes(x)}, guard(func() string {
				var d view.BoolView
				if err := d.Decode(x); err != nil {
					return "ERR"
				}
				return "OK (b_" + b01(bool(d)) + ")"
			}))
		}
		// codec.Sum
		for k := 0; k < 200; k++ {
			n := g.r.Intn(6)
			vals := make([]codec.ByteLength, n)
			parts := make([]string, n)
			for i := range vals {
				x := g.r.Uint64() >> uint(g.r.Intn(64))
				vals[i] = lenOnly(x)
				parts[i] = hx(x)
			}
			arg := "-"
			if n > 0 {
				arg = strings.Join(parts, ",")
			}
			out.emit("sum", "csum", []string{arg}, hx(codec.Sum(vals...)))
		}
	}
	// EncodingWriter primitives: WriteOffset around the uint32 limits (it panics beyond them),
	// the fixed-width little-endian writers
	{
		r := newRng(91)
		edge := []uint64{0, 1, 4, 1<<16 - 1, 1 << 16, 1<<31 - 1, 1 << 31, 1<<32 - 5, 1<<32 - 4, 1<<32 - 1, 1 << 32, 1<<32 + 1, 1 << 33, 1<<63 - 1, 1 << 63, ^uint64(0)}
		woff := func(prev, size uint64) {
			out.emit("woff", "woff", []string{hx(prev), hx(size)}, guard(func() string {
				var buf bytes.Buffer
				w := codec.NewEncodingWriter(&buf)
				off, err := w.WriteOffset(prev, size)
				if err != nil {
					return "ERR"
				}
				return "OK " + hx(off) + " " + hexBytes(buf.Bytes())
			}))
		}
		for _, a := range edge {
			for _, b := range edge {
				woff(a, b)
			}
		}
		for k := 0; k < 300; k++ {
			woff(r.Uint64()>>uint(r.Intn(64)), r.Uint64()>>uint(r.Intn(64)))
		}
		for k := 0; k < 200; k++ {
			x := r.Uint64() >> uint(r.Intn(64))
			for _, wd := range []uint64{1, 2, 4, 8} {
				w := wd
				out.emit("wprim", "wprim", []string{hx(w), hx(x)}, guard(func() string {
					var buf bytes.Buffer
					ew := codec.NewEncodingWriter(&buf)
					var err error
					switch w {
					case 1:
						err = ew.WriteByte(byte(x))
					case 2:
						err = ew.WriteUint16(uint16(x))
					case 4:
						err = ew.WriteUint32(uint32(x))
					case 8:
						err = ew.WriteUint64(x)
					}
					if err != nil {
						return "ERR"
					}
					return hexBytes(buf.Bytes()) + " n=" + hx(uint64(ew.Written()))
				}))
			}
		}
	}
	// a None value with a non-zero selector cannot be encoded
	for _, sel := range []int{1, 2, 3, 200} {
		ty := &Ty{Kind: "union", None: true, Fields: []*Ty{{Kind: "u", N: 8}, {Kind: "u", N: 2}}}
		v := &Val{Kind: "un", Sel: sel}
		out.emit("illtyped", "c09x", []string{ty.Sexp(), v.Sexp()}, guard(func() string {
			d, err := flatEncode(&fUnion{t: ty, sel: uint8(sel)})
			if err != nil {
				return "enc=ERR"
			}
			return "enc=" + hexBytes(d)
		}))
	}
	n := 700
	if thorough() {
		n = 20000
	}
	g := &gen{r: newRng(9), maxElem: 40}
	do := func(tag string, ty *Ty) {
		v := g.val(ty)
		out.emit(tag, "c09", []string{ty.Sexp(), v.Sexp(), "-"}, c09Obs(ty, v, nil))
		for k := 0; k < 2; k++ {
			p := g.val(ty)
			out.emit(tag+"-reuse", "c09", []string{ty.Sexp(), v.Sexp(), p.Sexp()}, c09Obs(ty, v, p))
		}
	}
	u8 := &Ty{Kind: "u", N: 1}
	// a single value of more than a megabyte, into a fresh destination and into recycled ones of
	// smaller capacity (also followed by another variable-size field)
	{
		bigL := &Ty{Kind: "list", Elem: u8, N: 1 << 40}
		nbig := 1<<20 + 4097
		bigV := &Val{Kind: "seq", Seq: make([]*Val, nbig)}
		small := [256]*Val{}
		for i := range small {
			small[i] = &Val{Kind: "n", U: bigInt(int64(i))}
		}
		for i := range bigV.Seq {
			bigV.Seq[i] = small[g.r.Intn(256)]
		}
		tail := &Val{Kind: "seq", Seq: []*Val{small[1], small[2], small[3]}}
		pair := &Ty{Kind: "cont", Fields: []*Ty{bigL, bigL}}
		pv := &Val{Kind: "cont", Seq: []*Val{bigV, tail}}
		prevL := &Val{Kind: "seq", Seq: []*Val{small[9], small[8], small[7], small[6], small[5]}}
		out.emit("bigval-reuse", "c09", []string{bigL.Sexp(), bigV.Sexp(), prevL.Sexp()}, c09Obs(bigL, bigV, prevL))
		prevP := &Val{Kind: "cont", Seq: []*Val{prevL, prevL}}
		out.emit("bigval-reuse", "c09", []string{pair.Sexp(), pv.Sexp(), prevP.Sexp()}, c09Obs(pair, pv, prevP))
		if thorough() {
			out.emit("bigval", "c09", []string{bigL.Sexp(), bigV.Sexp(), "-"}, c09Obs(bigL, bigV, nil))
			out.emit("bigval", "c09", []string{pair.Sexp(), pv.Sexp(), "-"}, c09Obs(pair, pv, nil))
		}
	}
	corpus := []*Ty{
		{Kind: "list", Elem: u8, N: 40},
		{Kind: "vec", Elem: u8, N: 7},
		{Kind: "bitlist", N: 8}, {Kind: "bitlist", N: 16}, {Kind: "bitlist", N: 9}, {Kind: "bitlist", N: 0},
		{Kind: "bitvec", N: 9},
		{Kind: "list", Elem: &Ty{Kind: "root"}, N: 5},
		{Kind: "vec", Elem: &Ty{Kind: "list", Elem: u8, N: 5}, N: 3},
		{Kind: "vec", Elem: &Ty{Kind: "bitlist", N: 5}, N: 4},
		{Kind: "list", Elem: &Ty{Kind: "list", Elem: u8, N: 5}, N: 4},
		{Kind: "list", Elem: &Ty{Kind: "cont", Fields: []*Ty{u8, {Kind: "list", Elem: u8, N: 3}}}, N: 4},
		{Kind: "cont", Fields: []*Ty{{Kind: "list", Elem: u8, N: 9}, {Kind: "bytes", N: 5}, {Kind: "bitlist", N: 30}}},
		{Kind: "union", None: true, Fields: []*Ty{{Kind: "u", N: 8}, {Kind: "list", Elem: u8, N: 4}}},
	}
	for _, ty := range corpus {
		for k := 0; k < 6; k++ {
			do("corpus", ty)
		}
	}
	for _, ty := range wideContainers() {
		do("wide", ty)
	}
	for k := 0; k < n; k++ {
		do("gen", g.ty(1+g.r.Intn(3)))
	}
}
