//go:build verif

package verifharness

import (
	"strings"
	"testing"
)

func c09Obs(t *Ty, v *Val, prev *Val) string {
	enc, blen, dec := "ERR", "ERR", "ERR"
	var data []byte
	ok := false
	func() {
		defer func() {
			if r := recover(); r != nil {
				enc = "PANIC"
			}
		}()
		f := flatOf(t, v)
		d, err := flatEncode(f)
		if err == nil {
			enc = hexBytes(d)
			data = d
			ok = true
		}
		blen = hx(f.ByteLength())
	}()
	if ok {
		func() {
			defer func() {
				if r := recover(); r != nil {
					dec = "PANIC"
				}
			}()
			var dst Flat
			if prev == nil {
				dst = newFlat(t)
			} else {
				dst = flatOf(t, prev)
			}
			if err := flatDecode(dst, data); err == nil {
				dec = strings.ReplaceAll(dst.Read(), " ", "_")
			}
		}()
	}
	return joinKV("enc="+enc, "blen="+blen, "dec="+dec)
}

func TestC09(t *testing.T) {
	out := openOut(t, "C09")
	defer out.close()
	n := 700
	if thorough() {
		n = 20000
	}
	g := &gen{r: newRng(9), maxElem: 40}
	do := func(tag string, ty *Ty) {
		v := g.val(ty)
		out.emit(tag, "c09", []string{ty.Sexp(), v.Sexp(), "-"}, c09Obs(ty, v, nil))
		for k := 0; k < 2; k++ {
			p := g.val(ty)
			out.emit(tag+"-reuse", "c09", []string{ty.Sexp(), v.Sexp(), p.Sexp()}, c09Obs(ty, v, p))
		}
	}
	u8 := &Ty{Kind: "u", N: 1}
	corpus := []*Ty{
		{Kind: "list", Elem: u8, N: 40},
		{Kind: "vec", Elem: u8, N: 7},
		{Kind: "bitlist", N: 8}, {Kind: "bitlist", N: 16}, {Kind: "bitlist", N: 9}, {Kind: "bitlist", N: 0},
		{Kind: "bitvec", N: 9},
		{Kind: "list", Elem: &Ty{Kind: "root"}, N: 5},
		{Kind: "vec", Elem: &Ty{Kind: "list", Elem: u8, N: 5}, N: 3},
		{Kind: "vec", Elem: &Ty{Kind: "bitlist", N: 5}, N: 4},
		{Kind: "list", Elem: &Ty{Kind: "list", Elem: u8, N: 5}, N: 4},
		{Kind: "list", Elem: &Ty{Kind: "cont", Fields: []*Ty{u8, {Kind: "list", Elem: u8, N: 3}}}, N: 4},
		{Kind: "cont", Fields: []*Ty{{Kind: "list", Elem: u8, N: 9}, {Kind: "bytes", N: 5}, {Kind: "bitlist", N: 30}}},
		{Kind: "union", None: true, Fields: []*Ty{{Kind: "u", N: 8}, {Kind: "list", Elem: u8, N: 4}}},
	}
	for _, ty := range corpus {
		for k := 0; k < 6; k++ {
			do("corpus", ty)
		}
	}
	for k := 0; k < n; k++ {
		do("gen", g.ty(1+g.r.Intn(3)))
	}
}
