(* util.ml — unverified glue between the extracted model (module Model) and text:
   number/byte conversions, SHA-256, s-expressions.  Part of the trusted base. *)
open Model

let rec pos_of_int i =
  if i = 1 then XH else if i land 1 = 1 then XI (pos_of_int (i lsr 1)) else XO (pos_of_int (i lsr 1))
let n_of_int i = if i <= 0 then N0 else Npos (pos_of_int i)
let rec int_of_pos = function XH -> 1 | XO p -> 2 * int_of_pos p | XI p -> 2 * int_of_pos p + 1
let int_of_n = function N0 -> 0 | Npos p -> int_of_pos p
let rec nat_of_int i = if i <= 0 then O else S (nat_of_int (i - 1))
let rec int_of_nat = function O -> 0 | S n -> 1 + int_of_nat n

(* big numbers travel as hex *)
let hexval c = match c with
  | '0'..'9' -> Char.code c - 48 | 'a'..'f' -> Char.code c - 87 | 'A'..'F' -> Char.code c - 55
  | _ -> failwith ("bad hex digit " ^ String.make 1 c)
let n_of_hex (s : string) : n =
  let acc = ref None in
  String.iter (fun c ->
    let d = hexval c in
    for k = 3 downto 0 do
      let b = (d lsr k) land 1 = 1 in
      acc := (match !acc with
              | None -> if b then Some XH else None
              | Some p -> Some (if b then XI p else XO p))
    done) s;
  match !acc with None -> N0 | Some p -> Npos p
let hex_of_n (x : n) : string =
  match x with
  | N0 -> "0"
  | Npos p ->
    let rec bits p acc = match p with
      | XH -> true :: acc | XO q -> bits q (false :: acc) | XI q -> bits q (true :: acc) in
    (* bits: msb first *)
    let bl = bits p [] in
    let len = List.length bl in
    let pad = (4 - len mod 4) mod 4 in
    let bl = List.init pad (fun _ -> false) @ bl in
    let buf = Buffer.create 16 in
    let rec go = function
      | a :: b :: c :: d :: r ->
        let v = (if a then 8 else 0) + (if b then 4 else 0) + (if c then 2 else 0) + (if d then 1 else 0) in
        Buffer.add_char buf "0123456789abcdef".[v]; go r
      | _ -> () in
    go bl; Buffer.contents buf

let byte_tab : byte array = Array.init 256 (fun i -> byte_of_N (n_of_int i))
let byte_of_int i = byte_tab.(i land 255)
let int_of_byte (b : byte) = int_of_n (n_of_byte b)

let bytes_of_hex (s : string) : byte list =
  let s = if String.length s >= 2 && s.[0] = '0' && s.[1] = 'x' then String.sub s 2 (String.length s - 2) else s in
  if s = "-" || s = "" then [] else begin
    if String.length s mod 2 <> 0 then failwith ("odd hex: " ^ s);
    List.init (String.length s / 2) (fun i -> byte_of_int (hexval s.[2*i] * 16 + hexval s.[2*i+1]))
  end
let hex_of_bytes (bs : byte list) : string =
  if bs = [] then "-" else begin
    let buf = Buffer.create 64 in
    List.iter (fun b -> Buffer.add_string buf (Printf.sprintf "%02x" (int_of_byte b))) bs;
    Buffer.contents buf
  end

(* ---- SHA-256 ---- *)
let k256 = [|
  0x428a2f98;0x71374491;0xb5c0fbcf;0xe9b5dba5;0x3956c25b;0x59f111f1;0x923f82a4;0xab1c5ed5;
  0xd807aa98;0x12835b01;0x243185be;0x550c7dc3;0x72be5d74;0x80deb1fe;0x9bdc06a7;0xc19bf174;
  0xe49b69c1;0xefbe4786;0x0fc19dc6;0x240ca1cc;0x2de92c6f;0x4a7484aa;0x5cb0a9dc;0x76f988da;
  0x983e5152;0xa831c66d;0xb00327c8;0xbf597fc7;0xc6e00bf3;0xd5a79147;0x06ca6351;0x14292967;
  0x27b70a85;0x2e1b2138;0x4d2c6dfc;0x53380d13;0x650a7354;0x766a0abb;0x81c2c92e;0x92722c85;
  0xa2bfe8a1;0xa81a664b;0xc24b8b70;0xc76c51a3;0xd192e819;0xd6990624;0xf40e3585;0x106aa070;
  0x19a4c116;0x1e376c08;0x2748774c;0x34b0bcb5;0x391c0cb3;0x4ed8aa4a;0x5b9cca4f;0x682e6ff3;
  0x748f82ee;0x78a5636f;0x84c87814;0x8cc70208;0x90befffa;0xa4506ceb;0xbef9a3f7;0xc67178f2 |]
let m32 = 0xFFFFFFFF
let rotr x n = ((x lsr n) lor (x lsl (32 - n))) land m32
let sha256 (msg : Bytes.t) : Bytes.t =
  let len = Bytes.length msg in
  let padlen = let r = (len + 9) mod 64 in if r = 0 then 0 else 64 - r in
  let total = len + 9 + padlen in
  let m = Bytes.make total '\000' in
  Bytes.blit msg 0 m 0 len;
  Bytes.set m len '\x80';
  let bitlen = len * 8 in
  for i = 0 to 7 do
    Bytes.set m (total - 1 - i) (Char.chr ((bitlen lsr (8 * i)) land 255))
  done;
  let h = [| 0x6a09e667;0xbb67ae85;0x3c6ef372;0xa54ff53a;0x510e527f;0x9b05688c;0x1f83d9ab;0x5be0cd19 |] in
  let w = Array.make 64 0 in
  for blk = 0 to total / 64 - 1 do
    for i = 0 to 15 do
      let o = blk * 64 + i * 4 in
      w.(i) <- (Char.code (Bytes.get m o) lsl 24) lor (Char.code (Bytes.get m (o+1)) lsl 16)
               lor (Char.code (Bytes.get m (o+2)) lsl 8) lor (Char.code (Bytes.get m (o+3)))
    done;
    for i = 16 to 63 do
      let s0 = (rotr w.(i-15) 7) lxor (rotr w.(i-15) 18) lxor (w.(i-15) lsr 3) in
      let s1 = (rotr w.(i-2) 17) lxor (rotr w.(i-2) 19) lxor (w.(i-2) lsr 10) in
      w.(i) <- (w.(i-16) + s0 + w.(i-7) + s1) land m32
    done;
    let a = ref h.(0) and b = ref h.(1) and c = ref h.(2) and d = ref h.(3)
    and e = ref h.(4) and f = ref h.(5) and g = ref h.(6) and hh = ref h.(7) in
    for i = 0 to 63 do
      let s1 = (rotr !e 6) lxor (rotr !e 11) lxor (rotr !e 25) in
      let ch = (!e land !f) lxor ((lnot !e) land m32 land !g) in
      let t1 = (!hh + s1 + ch + k256.(i) + w.(i)) land m32 in
      let s0 = (rotr !a 2) lxor (rotr !a 13) lxor (rotr !a 22) in
      let maj = (!a land !b) lxor (!a land !c) lxor (!b land !c) in
      let t2 = (s0 + maj) land m32 in
      hh := !g; g := !f; f := !e; e := (!d + t1) land m32;
      d := !c; c := !b; b := !a; a := (t1 + t2) land m32
    done;
    h.(0) <- (h.(0) + !a) land m32; h.(1) <- (h.(1) + !b) land m32;
    h.(2) <- (h.(2) + !c) land m32; h.(3) <- (h.(3) + !d) land m32;
    h.(4) <- (h.(4) + !e) land m32; h.(5) <- (h.(5) + !f) land m32;
    h.(6) <- (h.(6) + !g) land m32; h.(7) <- (h.(7) + !hh) land m32
  done;
  let out = Bytes.create 32 in
  for i = 0 to 7 do
    for j = 0 to 3 do
      Bytes.set out (i * 4 + j) (Char.chr ((h.(i) lsr (24 - 8 * j)) land 255))
    done
  done;
  out

let ocaml_bytes_of (bs : byte list) : Bytes.t =
  let n = List.length bs in
  let out = Bytes.create n in
  List.iteri (fun i b -> Bytes.set out i (Char.chr (int_of_byte b))) bs; out
let list_of_ocaml_bytes (b : Bytes.t) : byte list =
  List.init (Bytes.length b) (fun i -> byte_of_int (Char.code (Bytes.get b i)))

(* the two pair-hash configurations; hash_calls counts invocations made by the model *)
let hash_calls = ref 0
let h_sha (a : byte list) (b : byte list) : byte list =
  incr hash_calls;
  list_of_ocaml_bytes (sha256 (ocaml_bytes_of (a @ b)))
(* alternative pluggable hash: sha256(0x01 || a || b) — also implemented in the Go harness *)
let h_alt (a : byte list) (b : byte list) : byte list =
  incr hash_calls;
  list_of_ocaml_bytes (sha256 (ocaml_bytes_of (byte_of_int 1 :: (a @ b))))

(* mostly-zero pluggable hash: a 4-byte window of sha256(0x02 || a || b), first byte of the
   window made non-zero — also implemented in the Go harness (zwinPair) *)
let h_zwin (a : byte list) (b : byte list) : byte list =
  incr hash_calls;
  let s = sha256 (ocaml_bytes_of (byte_of_int 2 :: (a @ b))) in
  let p = (Char.code (Bytes.get s 31) mod 8) * 4 in
  let o = Bytes.make 32 '\000' in
  Bytes.blit s p o p 4;
  Bytes.set o p (Char.chr (Char.code (Bytes.get o p) lor 1));
  list_of_ocaml_bytes o

let mk_zh (h : byte list -> byte list -> byte list) : nat -> byte list =
  let tab = Array.make 66 zero_chunk in
  for i = 1 to 65 do tab.(i) <- h tab.(i-1) tab.(i-1) done;
  fun d -> let i = int_of_nat d in if i <= 65 then tab.(i) else failwith "zh out of range"

(* ---- s-expressions ---- *)
type sexp = A of string | L of sexp list
let parse_sexp (s : string) : sexp =
  let n = String.length s in
  let pos = ref 0 in
  let rec skip () = while !pos < n && (s.[!pos] = ' ') do incr pos done
  and parse () =
    skip ();
    if !pos >= n then failwith "sexp: eof"
    else if s.[!pos] = '(' then begin
      incr pos;
      let items = ref [] in
      let fin = ref false in
      while not !fin do
        skip ();
        if !pos >= n then failwith "sexp: unclosed"
        else if s.[!pos] = ')' then (incr pos; fin := true)
        else items := parse () :: !items
      done;
      L (List.rev !items)
    end else begin
      let st = !pos in
      while !pos < n && s.[!pos] <> ' ' && s.[!pos] <> '(' && s.[!pos] <> ')' do incr pos done;
      A (String.sub s st (!pos - st))
    end in
  parse ()

(* types: (u w) bool (bytes n) root (bitvec n) (bitlist n) (vec T n) (list T n)
          (cont T...) (union T...) (unionn T...)   [unionn: option 0 is None] ; numbers hex *)
let rec ty_of_sexp (e : sexp) : ty =
  match e with
  | A "bool" -> TBool
  | A "root" -> TRoot
  | L [A "u"; A w] -> TUint (n_of_hex w)
  | L [A "bytes"; A k] -> TBytes (n_of_hex k)
  | L [A "bitvec"; A k] -> TBitvector (n_of_hex k)
  | L [A "bitlist"; A k] -> TBitlist (n_of_hex k)
  | L [A "vec"; t; A k] -> TVector (ty_of_sexp t, n_of_hex k)
  | L [A "list"; t; A k] -> TList (ty_of_sexp t, n_of_hex k)
  | L (A "cont" :: ts) -> TContainer (List.map ty_of_sexp ts)
  | L (A "union" :: ts) -> TUnion (false, List.map ty_of_sexp ts)
  | L (A "unionn" :: ts) -> TUnion (true, List.map ty_of_sexp ts)
  | _ -> failwith "bad type sexp"

(* values: (n hex) (b 0|1) (x hexbytes) (bits 0101|-) (seq v...) (cont v...) (un sel v) (un sel none) *)
let rec val_of_sexp (e : sexp) : val0 =
  match e with
  | L [A "n"; A h] -> VUint (n_of_hex h)
  | L [A "b"; A h] -> VBool (h = "1")
  | L [A "x"; A h] -> VBytes (bytes_of_hex h)
  | L [A "bits"; A h] ->
    VBits (if h = "-" then [] else List.init (String.length h) (fun i -> h.[i] = '1'))
  | L (A "seq" :: vs) -> VSeq (List.map val_of_sexp vs)
  | L (A "cont" :: vs) -> VCont (List.map val_of_sexp vs)
  | L [A "un"; A sel; A "none"] -> VUnion (n_of_hex sel, None)
  | L [A "un"; A sel; v] -> VUnion (n_of_hex sel, Some (val_of_sexp v))
  | _ -> failwith "bad value sexp"

let rec string_of_val (v : val0) : string =
  match v with
  | VUint x -> "(n " ^ hex_of_n x ^ ")"
  | VBool b -> if b then "(b 1)" else "(b 0)"
  | VBytes bs -> "(x " ^ hex_of_bytes bs ^ ")"
  | VBits bs -> "(bits " ^ (if bs = [] then "-" else String.concat "" (List.map (fun b -> if b then "1" else "0") bs)) ^ ")"
  | VSeq vs -> "(seq" ^ String.concat "" (List.map (fun v -> " " ^ string_of_val v) vs) ^ ")"
  | VCont vs -> "(cont" ^ String.concat "" (List.map (fun v -> " " ^ string_of_val v) vs) ^ ")"
  | VUnion (s, None) -> "(un " ^ hex_of_n s ^ " none)"
  | VUnion (s, Some v) -> "(un " ^ hex_of_n s ^ " " ^ string_of_val v ^ ")"

let show_res (f : 'a -> string) (r : 'a res) : string =
  match r with OK a -> "OK " ^ f a | Err -> "ERR" | Panic -> "PANIC"
let show_bool b = if b then "1" else "0"
