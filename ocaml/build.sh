#!/bin/sh
# Extract the model (coqc must run in this directory: extraction writes to the cwd) and build the driver.
set -e
cd "$(dirname "$0")"
if [ ! -f model.ml ] || [ ../coq/Extract.v -nt model.ml ] || [ -n "$(find ../coq -name '*.vo' -newer model.ml 2>/dev/null | head -1)" ]; then
  cp ../coq/Extract.v ./Extract_run.v
  coqc -Q ../coq Ztyp Extract_run.v >/dev/null
  rm -f Extract_run.v Extract_run.vo Extract_run.vok Extract_run.vos Extract_run.glob .Extract_run.aux
fi
if [ ! -x driver ] || [ model.ml -nt driver ] || [ util.ml -nt driver ] || [ driver.ml -nt driver ] || [ driver_ops.ml -nt driver ] || [ hist.ml -nt driver ]; then
  ocamlfind ocamlopt -O3 -unboxed-types 2>/dev/null >/dev/null || true
  ocamlfind ocamlopt -w -a -o driver model.mli model.ml util.ml hist.ml driver_ops.ml driver.ml
fi
