(* driver.ml — replays correspondence cases on the extracted model.
   stdin: one case per line, tab separated:  id <TAB> op <TAB> arg ...
   stdout: id <TAB> model observation.   Unverified glue (trusted base). *)
open Model
open Util

let nh = n_of_hex
let hn = hex_of_n
let optbytes = function None -> "nil" | Some bs -> hex_of_bytes bs

(* hash configuration of the current case: "sha" or "alt" *)
let cur_h = ref h_sha
let zh_sha = mk_zh h_sha
let zh_alt = mk_zh h_alt
let zh_zwin = mk_zh h_zwin
let cur_zh = ref zh_sha
let set_cfg c =
  if c = "zwin" then (cur_h := h_zwin; cur_zh := zh_zwin) else
  if c = "alt" then (cur_h := h_alt; cur_zh := zh_alt) else (cur_h := h_sha; cur_zh := zh_sha)

(* ---- C16 ---- *)
let op_gindex v =
  let v = nh v in
  let path = g_path v in
  let (la, bl) = g_left_aligned v in
  String.concat " " [
    "bi=" ^ hn (bit_index v); "bl=" ^ hn (bit_length v); "cd=" ^ hn (cover_depth v);
    "anchor=" ^ hn (g_anchor v); "subtree=" ^ hn (g_subtree v);
    "left=" ^ hn (g_left v); "right=" ^ hn (g_right v); "parent=" ^ hn (g_parent v);
    "isleft=" ^ show_bool (g_is_left v); "isroot=" ^ show_bool (g_is_root v);
    "isclose=" ^ show_bool (g_is_close v); "depth=" ^ hn (g_depth v);
    "path=" ^ (if path = [] then "-" else String.concat "" (List.map show_bool path));
    "le=" ^ optbytes (g_little_endian v); "be=" ^ optbytes (g_big_endian v);
    "lab=" ^ optbytes la ^ "/" ^ hn bl ]

(* bit iterator: [extra] calls beyond the end must all report ok=false *)
let op_bititer v extra =
  let v = nh v in
  let (it, d) = g_bit_iter v in
  let total = int_of_n d + int_of_string extra in
  let it = ref it in
  let buf = Buffer.create 80 in
  for _ = 1 to total do
    let (it', (r, ok)) = biter_next !it in
    it := it';
    Buffer.add_string buf (if ok then (if r then "1" else "0") else "x")
  done;
  "depth=" ^ hn d ^ " bits=" ^ Buffer.contents buf

let op_togindex i d = show_res hn (to_gindex64 (nh i) (nh d))

(* ---- C18 ---- *)
let show_unit_res r = match r with OK _ -> "OK" | Err -> "ERR" | Panic -> "PANIC"
let op_bitfield bs limit idx =
  let bs = bytes_of_hex bs and limit = nh limit and idx = nh idx in
  String.concat " " [
    "blcheck=" ^ show_unit_res (bitlist_check bs limit);
    "bllen=" ^ hn (bitlist_len bs);
    "blones=" ^ hn (bitlist_ones_count bs);
    "iszero=" ^ show_bool (is_zero_bitlist bs);
    "bvcheck=" ^ show_unit_res (bitvector_check bs limit);
    "bvones=" ^ hn (bitvector_ones_count bs);
    "get=" ^ show_res show_bool (get_bit bs idx);
    "set1=" ^ show_res hex_of_bytes (set_bit bs idx true);
    "set0=" ^ show_res hex_of_bytes (set_bit bs idx false) ]
let op_covers a b = show_res show_bool (covers (bytes_of_hex a) (bytes_of_hex b))
let op_bytebitindex b = hn (byte_bit_index (byte_of_int (int_of_string b)))

let dispatch (op : string) (args : string list) : string =
  match op, args with
  | "gindex", [v] -> op_gindex v
  | "bititer", [v; extra] -> op_bititer v extra
  | "togindex", [i; d] -> op_togindex i d
  | "bitfield", [bs; limit; idx] -> op_bitfield bs limit idx
  | "covers", [a; b] -> op_covers a b
  | "bytebitindex", [b] -> op_bytebitindex b
  | _ -> Driver_ops.dispatch set_cfg cur_h cur_zh op args

let () =
  (* self-test of the SHA-256 glue *)
  let d = sha256 (Bytes.of_string "abc") in
  let hex = String.concat "" (List.init 32 (fun i -> Printf.sprintf "%02x" (Char.code (Bytes.get d i)))) in
  if hex <> "ba7816bf8f01cfea414140de5dae2223b00361a396177a9cb410ff61f20015ad" then
    (prerr_endline "sha256 self-test failed"; exit 2);
  try
    while true do
      let line = input_line stdin in
      if line <> "" then begin
        match String.split_on_char '\t' line with
        | id :: op :: args ->
          let r = (try dispatch op args with
                   | Failure m -> "DRIVER-ERROR " ^ m
                   | Not_found -> "DRIVER-ERROR not_found"
                   | Stack_overflow -> "DRIVER-ERROR stack_overflow"
                   | Invalid_argument m -> "DRIVER-ERROR invalid_arg " ^ m) in
          print_string id; print_char '\t'; print_endline r
        | _ -> ()
      end
    done
  with End_of_file -> ()
