(* driver_ops.ml — model-side replay of the tree / view / codec cases.  Unverified glue. *)
open Model
open Util

let nh = n_of_hex
let hn = hex_of_n
let hb = hex_of_bytes

let ty_of s = ty_of_sexp (parse_sexp s)
let val_of s = val_of_sexp (parse_sexp s)

let rs f r = match r with OK a -> f a | Err -> "ERR" | Panic -> "PANIC"

let sval v = String.map (fun c -> if c = ' ' then '_' else c) (string_of_val v)

(* ---- C01 ---- *)
(* top-level mutation chain that rebuilds value v of type t starting from the default *)
let mut_chain (t : ty) (v : val0) : op list =
  let lit e x = SLit (e, x) in
  match t, v with
  | TList (e, n), VSeq vs ->
    List.map (fun x -> OAppend (O, lit e x)) vs
    @ (if vs <> [] && N.ltb (n_of_int (List.length vs)) n
       then [OAppend (O, lit e (List.nth vs (List.length vs - 1))); OPop O] else [])
  | TBitlist n, VBits bs ->
    List.map (fun b -> OAppend (O, lit TBool (VBool b))) bs
    @ (if N.ltb (n_of_int (List.length bs)) n then [OAppend (O, lit TBool (VBool true)); OPop O] else [])
  | TVector (e, _), VSeq vs -> List.mapi (fun i x -> OSet (O, n_of_int i, lit e x)) vs
  | TBitvector _, VBits bs -> List.mapi (fun i b -> OSet (O, n_of_int i, lit TBool (VBool b))) bs
  | TContainer fs, VCont vs ->
    List.mapi (fun i (f, x) -> OSet (O, n_of_int i, lit f x)) (List.combine fs vs)
  | TUnion (none, opts), VUnion (sel, ov) ->
    (match ov with
     | None -> [OChange (O, sel, SNone)]
     | Some x ->
       (match union_opt none opts sel with
        | Some o -> [OChange (O, sel, lit o x)]
        | None -> failwith "mut_chain: bad selector"))
  | _ -> []

let run_tm zh (t : ty) (n0 : node) (ops : op list) : node res =
  let st = ref (tm_init t n0) in
  let bad = ref None in
  List.iter (fun o ->
    if !bad = None then begin
      let (st', r) = tm_step zh !st o in
      st := st';
      (match r with OK _ -> () | Err -> bad := Some false | Panic -> bad := Some true)
    end) ops;
  match !bad with
  | Some true -> Panic
  | Some false -> Err
  | None -> (match (!st).m_handles with h :: _ -> OK h.h_back | [] -> Err)

let c01 h zh cfg tys vals route =
  ignore cfg;
  let t = ty_of tys in
  let root n = hb (root_of h n) in
  match route with
  | "default" ->
    let dv = default_val t in
    let r = rs root (default_node zh t) in
    Printf.sprintf "root=%s dnode=%s spec_root=%s spec_dnode=%s" r r
      (hb (spec_htr h t dv)) (hb (spec_htr h t dv))
  | _ ->
    let v = val_of vals in
    let spec = hb (spec_htr h t v) in
    let r =
      match route with
      | "ctor" -> rs root (from_val zh t v)
      | "deser" -> rs root (view_deserialize zh t (spec_ser t v))
      | "mut" when (match t with TUint _ | TBool | TBytes _ | TRoot -> true | _ -> false) ->
        rs root (from_val zh t v)
      | "mut" ->
        (match default_node zh t with
         | OK d -> rs root (run_tm zh t d (mut_chain t v))
         | Err -> "ERR" | Panic -> "PANIC")
      | _ -> failwith "bad route" in
    Printf.sprintf "root=%s spec_root=%s" r spec

(* ---- C02 ---- *)
let c02 h zh tys vals =
  let t = ty_of tys in
  let v = val_of vals in
  let sbytes = spec_ser t v in
  let n = from_val zh t v in
  let ser = match n with OK n -> rs hb (ser_node t n) | Err -> "ERR" | Panic -> "PANIC" in
  let blen = match n with OK n -> rs hn (byte_len t n) | Err -> "ERR" | Panic -> "PANIC" in
  let d = view_deserialize zh t sbytes in
  let dser = match d with OK n -> rs hb (ser_node t n) | Err -> "ERR" | Panic -> "PANIC" in
  let droot = match d with OK n -> hb (root_of h n) | Err -> "ERR" | Panic -> "PANIC" in
  let dval = match d with
    | OK n -> rs string_of_val (read_val (nat_of_int 12) t n)
    | Err -> "ERR" | Panic -> "PANIC" in
  let dval = String.map (fun c -> if c = ' ' then '_' else c) dval in
  let sval = String.map (fun c -> if c = ' ' then '_' else c) (string_of_val v) in
  Printf.sprintf "ser=%s blen=%s dser=%s droot=%s dval=%s spec_ser=%s spec_blen=%s spec_dser=%s spec_droot=%s spec_dval=%s"
    ser blen dser droot dval (hb sbytes) (hn (n_of_int (List.length sbytes))) (hb sbytes)
    (match n with OK n -> hb (root_of h n) | _ -> "ERR") sval

(* ---- C03 ---- *)
let c03 zh tys data =
  let t = ty_of tys in
  let bs = bytes_of_hex data in
  match view_deserialize zh t bs with
  | Err -> "res=ERR reser=- valid=1 spec_valid=1"
  | Panic -> "res=PANIC reser=- valid=1 spec_valid=1"
  | OK n ->
    let reser = rs hb (ser_node t n) in
    (* accepted => the bytes are the SSZ encoding of a value of the type *)
    let valid =
      match read_val (nat_of_int 12) t n with
      | OK v -> has_type v t && spec_ser t v = bs
      | _ -> false in
    Printf.sprintf "res=OK reser=%s valid=%s spec_valid=1" reser (show_bool valid)

(* ---- C15 ---- *)
let two64 = nh "10000000000000000"
let n_lt a b = N.ltb a b
(* inputs of 2^32 bytes and more are not materialised: the model's answer is what the decoding
   theorems say about every such input - an accepting decoder consumed and reproduces the whole
   string (canon, whole) - plus, from the model's size bounds (sizes_bound_encodings), a
   rejection when the length lies outside [min, max] of the type *)
let huge_expect tys head pad tail =
  let t = ty_of tys in
  let i = info t in
  let hl s = if s = "-" then 0 else String.length s / 2 in
  let total = N.add (n_of_int (hl head + hl tail)) (nh pad) in
  let inside = not (n_lt total i.ti_min) && not (n_lt i.ti_max total) in
  (if inside then "" else "res=ERR ") ^ "canon=1 whole=1"

(* bit get/set at indices of 2^32 and more on a sparse description of a huge byte string: the
   definition the C18 theorems state (get_bit bs i = bit (i mod 8) of byte i/8; set_bit changes
   that bit only), evaluated by arithmetic because the model's lists cannot hold 2^29 bytes *)
let bitbig _total desc idx =
  let tbl = Hashtbl.create 8 in
  List.iter (fun e -> match String.split_on_char ':' e with
      | [p; b] -> Hashtbl.replace tbl (int_of_string ("0x" ^ p)) (int_of_string ("0x" ^ b))
      | _ -> ()) (String.split_on_char ',' desc);
  let i = int_of_string ("0x" ^ idx) in
  let byte_at p = match Hashtbl.find_opt tbl p with Some b -> b | None -> 0 in
  let pos = i lsr 3 and lo = (i land 0xffffffff) lsr 3 in
  let g = (byte_at pos lsr (i land 7)) land 1 in
  let after = if g = 1 then byte_at pos land (lnot (1 lsl (i land 7))) land 255 else byte_at pos lor (1 lsl (i land 7)) in
  let low = if lo = pos then after else byte_at lo in
  Printf.sprintf "get=%d byte=%x low=%x" g after low

let c15 tys =
  let t = ty_of tys in
  let i = info t in
  let smax = spec_max_len t in
  let sfix = spec_is_fixed t in
  (* inb / acc: every valid value's encoding lies within the bounds and is accepted
     (sizes_bound_encodings, view_decode_encode) *)
  let base = Printf.sprintf "fixed=%s size=%s min=%s max=%s"
      (show_bool i.ti_fixed) (hn i.ti_size) (hn i.ti_min) (hn i.ti_max) in
  if n_lt smax two64 then
    Printf.sprintf "inb=1 acc=1 %s spec_fixed=%s spec_size=%s spec_min=%s spec_max=%s" base
      (show_bool sfix) (hn (spec_fixed_len t)) (hn (spec_min_len t)) (hn smax)
  else base ^ " overflow=1"


(* ---- C08 ---- *)
let c08_merk h zh count limit leaves =
  let count = nh count and limit = nh limit in
  let bs = bytes_of_hex leaves in
  let rec chunks l = match l with [] -> [] | _ ->
    let rec take n l = if n = 0 then ([], l) else (match l with [] -> ([], []) | x :: r -> let (a, b) = take (n-1) r in (x :: a, b)) in
    let (c, r) = take 32 l in c :: chunks r in
  let cs = Array.of_list (chunks bs) in
  let leaf i = let k = int_of_n i in if k < Array.length cs then cs.(k) else zero_chunk in
  let r = rs hb (merkleize h zh count limit leaf) in
  let used = int_of_n (if N.ltb limit count then limit else count) in
  let spec = hb (merkleize_spec h (Array.to_list (Array.sub cs 0 (min used (Array.length cs)))) limit) in
  Printf.sprintf "root=%s spec_root=%s" r spec

let c08 h zh tys vals =
  let t = ty_of tys and v = val_of vals in
  (* stable: the helpers are functions of their input (the model has no write to it) *)
  Printf.sprintf "stable=1 root=%s spec_root=%s vroot=%s" (rs hb (flat_htr h zh t v)) (hb (spec_htr h t v))
    (match from_val zh t v with OK n -> hb (root_of h n) | Err -> "ERR" | Panic -> "PANIC")

(* ---- C09 / C10 ---- *)
let rec ctree_of (t : ty) (v : val0) : ctree =
  let nlen l = n_of_int (List.length l) in
  match t, v with
  | TBytes _, VBytes bs -> CBytes (nlen bs, nlen bs)
  | TBitvector _, VBits bs -> let k = n_of_int ((List.length bs + 7) / 8) in CBytes (k, k)
  | TBitlist _, VBits bs -> let k = n_of_int (List.length bs / 8 + 1) in CBytes (k, k)
  | TVector (TUint w, _), VSeq vs when int_of_n w = 1 -> CBytes (nlen vs, nlen vs)
  | TList (TUint w, _), VSeq vs when int_of_n w = 1 -> CBytes (nlen vs, nlen vs)
  | TVector (e, _), VSeq vs -> CNodes (List.map (ctree_of e) vs)
  | TContainer fs, VCont vs -> CNodes (List.map2 ctree_of fs vs)
  | _ -> CFresh

let c09 tys vals prevs =
  let t = ty_of tys and v = val_of vals in
  let c = if prevs = "-" then CFresh else ctree_of t (val_of prevs) in
  let enc = flat_enc t v in
  let sbytes = spec_ser t v in
  let dec = match enc with
    | OK bs -> rs (fun (v', _) -> sval v') (flat_decode t c bs)
    | Err -> "ERR" | Panic -> "PANIC" in
  Printf.sprintf "enc=%s blen=%s dec=%s spec_enc=%s spec_blen=%s spec_dec=%s"
    (rs hb enc) (hn (flat_len t v)) dec (hb sbytes) (hn (n_of_int (List.length sbytes))) (sval v)

(* EncodingWriter.WriteOffset / WriteByte / WriteUint16/32/64 *)
let woff prev size =
  match w_offset (nh prev) (nh size) with
  | OK (off, bs) -> "OK " ^ hn off ^ " " ^ hb bs
  | Err -> "ERR" | Panic -> "PANIC"
let wprim w x =
  let w = nh w in
  let x = N.modulo (nh x) (N.pow (n_of_int 256) w) in
  hb (le_bytes (nat_of_int (int_of_n w)) x) ^ " n=" ^ hn w
let c09x tys vals = Printf.sprintf "enc=%s" (rs hb (flat_enc (ty_of tys) (val_of vals)))

(* the As* cast helpers: which helper accepts which kind of view (view/*.go) *)
let ascast h zh helper tys vals mode =
  let t = ty_of tys and v = val_of vals in
  let accepts = match t with
    | TUint w -> (match int_of_n w with
        | 1 -> ["uint8"; "byte"] | 2 -> ["uint16"] | 4 -> ["uint32"] | 8 -> ["uint64"] | 32 -> ["uint256"] | _ -> [])
    | TBool -> ["bool"] | TRoot -> ["root"]
    | TBytes k -> "smallbytevec" :: (match int_of_n k with 4 -> ["bytes4"] | 8 -> ["bytes8"] | 16 -> ["bytes16"] | _ -> [])
    | TBitvector _ -> ["bitvector"] | TBitlist _ -> ["bitlist"]
    | TVector (e, _) -> if is_basic_elem e then ["basicvector"] else ["complexvector"]
    | TList (e, _) -> if is_basic_elem e then ["basiclist"] else ["complexlist"]
    | TContainer _ -> ["container"] | TUnion _ -> ["union"] in
  if mode = "err" || not (List.mem helper accepts) then "ERR" else
  match t with
  | TUint _ | TBool | TRoot | TBytes _ -> "OK " ^ sval v
  | _ -> (match from_val zh t v with OK n -> "OK " ^ hb (root_of h n) | _ -> "ERR")

(* the sub-chunk primitives of view/basic.go, view/u256.go *)
let prim op args =
  let chunk h = bytes_of_hex h in
  match op, args with
  | "bfb", [w; c; i; n] ->
    (match packed_set (TUint (nh w)) (chunk c) (nh i) (VUint (nh n)) with
     | OK c' -> "new=" ^ hb c' ^ " base=same" | Panic -> "new=NIL base=same" | Err -> "new=ERR base=same")
  | "bvb", [w; c; i] ->
    (match packed_val (TUint (nh w)) (chunk c) (nh i) with
     | OK (VUint n) -> "OK " ^ hn n | OK _ -> "ERR" | Err -> "ERR" | Panic -> "PANIC")
  | "bitb", [c; i; b] -> "new=" ^ hb (chunk_set_bit (chunk c) (nh i) (b = "1")) ^ " base=same"
  | "bitg", [c; i] -> show_bool (chunk_get_bit (chunk c) (nh i))
  | "boolb", [c; i; b] ->
    (match bool_backing_from_base (chunk c) (nh i) (b = "1") with
     | Some c' -> "new=" ^ hb c' ^ " base=same" | None -> "new=NIL base=same")
  | "boolg", [c; i] ->
    (match bool_subview (chunk c) (nh i) with Some b -> "OK " ^ show_bool b | None -> "NIL")
  | _ -> failwith "bad prim op"

let c10 tys data =
  let t = ty_of tys in
  let bs = bytes_of_hex data in
  match flat_decode t CFresh bs with
  | Err -> "res=ERR reenc=- valid=1 spec_valid=1"
  | Panic -> "res=PANIC reenc=- valid=1 spec_valid=1"
  | OK (v, _) ->
    let valid = has_type v t && spec_ser t v = bs in
    Printf.sprintf "res=OK reenc=%s valid=%s spec_valid=1" (rs hb (flat_enc t v)) (show_bool valid)

(* ---- C17 ---- *)
let show_steps h (l : istep list) : string =
  if l = [] then "-" else
  String.concat "," (List.map (fun s -> match s with
    | IVal (VUint x) -> hn x
    | IVal (VBool b) -> show_bool b
    | IVal v -> sval v
    | INode (t, n) ->
      (* the harness renders an element by the hash-tree-root of the typed view; for the
         single-chunk types that is the value read off the leaf (bytes beyond the type's
         width, which only a malformed backing has, do not show) *)
      (match t, n with
       | (TUint _ | TBool | TBytes _ | TRoot), Leaf c ->
         (match leaf_val t c with OK v -> hb (pad32 (spec_ser t v)) | _ -> "ERR")
       | _ -> hb (root_of h n))
    | IEnd -> "END" | IErr -> "ERR" | IPanic -> "PANIC") l)

(* Get(i) for i = 0 .. len-1 with a binary counter (the model's get_all walks a unary nat and
   converts every index with N.of_nat: quadratic on the extracted code for 10^5 elements).
   Same function view_get, same order; C17_ix_eq_get proves ix_iter = get_all ++ End*. *)
let get_all_fast (t : ty) (n : node) : istep list =
  let len = match t with
    | TBitvector k | TVector (_, k) -> OK k
    | TBitlist k | TList (_, k) -> list_length k n
    | TContainer fs -> OK (n_of_int (List.length fs))
    | _ -> Err in
  match len with
  | OK len ->
    let cnt = int_of_n len in
    let out = ref [] in
    let i = ref N0 in
    for _ = 1 to cnt do
      out := (match view_get t n !i with
          | OK (GVal v) -> IVal v | OK (GNode (t', m)) -> INode (t', m)
          | Err -> IErr | Panic -> IPanic) :: !out;
      i := N.succ !i
    done;
    List.rev !out
  | Err -> [IErr] | Panic -> [IPanic]

let c17_extra = ref 3
let c17 h zh tys vals =
  let t = ty_of tys and v = val_of vals in
  let rec ends k = if k = 0 then [] else IEnd :: ends (k - 1) in
  match from_val zh t v with
  | OK n ->
    let fv = match t with
      | TContainer _ ->
        let l = ro_iter t n O in
        if List.exists (function IErr | IPanic -> true | _ -> false) l then "ERR" else show_steps h l
      | _ -> "-" in
    Printf.sprintf "ro=%s ix=%s get=%s fv=%s" (show_steps h (ro_iter t n (nat_of_int !c17_extra)))
      (let g = get_all_fast t n in
       if g = [IErr] || g = [IPanic] then show_steps h g else show_steps h (g @ ends !c17_extra))
      (show_steps h (get_all_fast t n)) fv
  | Err -> "ro=ERR ix=ERR get=ERR" | Panic -> "ro=PANIC ix=PANIC get=PANIC"

(* the same observations on a malformed backing: the node at gindex g replaced by a pair of
   two copies of itself ("graft": a pair where the type expects a chunk) or by its summary
   root ("summ": data missing).  Get(i) = node lookup + ViewFromBacking of the element type. *)
let c17g h zh tys vals kind g =
  let t = ty_of tys and v = val_of vals in
  match from_val zh t v with
  | OK n0 ->
    let n' = if kind = "biglen" then
        (match t with
         | TList (_, k) | TBitlist k ->
           setter zh n0 (n_of_int 3) false (Leaf (pad32 (le_bytes (nat_of_int 8) (N.add k (n_of_int 1)))))
         | _ -> Err)
      else if kind = "graft" then
        (match getter n0 (nh g) with
         | OK l -> setter zh n0 (nh g) false (Pair (l, l))
         | Err -> Err | Panic -> Panic)
      else summarize zh h n0 (nh g) in
    (match n' with
     | OK n ->
       let chk s = match s with
         | INode (t', m) when not (view_from_backing_ok t' m) -> IErr
         | s -> s in
       let g = List.map chk (get_all_fast t n) in
       let len_ok = match t with
         | TBitlist k | TList (_, k) -> (match list_length k n with OK _ -> true | _ -> false)
         | _ -> true in
       Printf.sprintf "ro=%s ix=%s get=%s" (show_steps h (ro_iter t n (nat_of_int 3)))
         (if not len_ok then show_steps h g else show_steps h (g @ [IEnd; IEnd; IEnd]))
         (show_steps h g)
     | Err -> "ro=ERR ix=ERR get=ERR" | Panic -> "ro=PANIC ix=PANIC get=PANIC")
  | Err -> "ro=ERR ix=ERR get=ERR" | Panic -> "ro=PANIC ix=PANIC get=PANIC"

(* ---- C19 ---- *)
let show_cres f r = match r with
  | COk a -> "OK " ^ f a | CSyntax -> "ESYNTAX" | CRange -> "ERANGE" | CEmpty -> "EEMPTY"
  | CQuote -> "EQUOTE" | COther -> "EOTHER"
let c19 op args =
  match op, args with
  | "umt", [n] -> hb (uint_marshal_text (nh n))
  | "umj", [n] -> hb (uint_marshal_json (nh n))
  | "uut", [w; text] -> show_cres hn (uint_unmarshal_text (bytes_of_hex text) (nh w))
  | "uuj", [w; text] -> show_cres hn (uint_unmarshal_json_cast (bytes_of_hex text) (nh w))
  | "u256ut", [text] -> show_cres hn (u256_unmarshal_text (bytes_of_hex text))
  | "u256uj", [text] -> show_cres hn (u256_unmarshal_json (bytes_of_hex text))
  | "hexm", [bs] -> hb (bytes_marshal_text (bytes_of_hex bs))
  | "hexu", [k; text] ->
    (match fixed_bytes_unmarshal (nh k) (bytes_of_hex text) with
     | Some bs -> "OK " ^ hb bs | None -> "ERR")
  | _ -> failwith "bad c19 op"


(* ---- C13 ---- *)
let c13_prim data chunks eof fail reqs =
  let data = bytes_of_hex data in
  let ints s = if s = "-" then [] else List.map (fun x -> nh x) (String.split_on_char ',' s) in
  let u = { u_data = data; u_chunks = ints chunks; u_eof_with_data = (eof = "1");
            u_fail_after = (if fail = "-" then None else Some (nh fail)) } in
  let scope = n_of_int (List.length data) in
  match run_reads u scope N0 scope (ints reqs) with
  | OK l -> "OK " ^ String.concat "," (List.map hb l)
  | Err -> "ERR" | Panic -> "PANIC"

(* scripts of SubScope / Read / back-to-parent over a scheduled reader: the chain of nested
   LimitedReaders (IOChain.v).  A child's chain is its own counter :: the parent's chain, the
   counters are shared, so going back up drops the head. *)
let c13_prim_chain data chunks eof fail scope script =
  let data = bytes_of_hex data in
  let ints s = if s = "-" then [] else List.map (fun x -> nh x) (String.split_on_char ',' s) in
  let u = ref { u_data = data; u_chunks = ints chunks; u_eof_with_data = (eof = "1");
                u_fail_after = (if fail = "-" then None else Some (nh fail)) } in
  let scope = nh scope in
  (* readers: parent id (-1 for the top), index, max, own LimitedReader counter; a reader's chain
     is its own counter followed by its ancestors' (the counters are shared objects) *)
  let parent = ref [| -1 |] and idx = ref [| N0 |] and mx = ref [| scope |] and lim = ref [| scope |] in
  let cur = ref 0 in
  let rec chain k = if k < 0 then [] else k :: chain !parent.(k) in
  let parts = ref [] in
  let stop = ref false in
  let two64 = N.pow (n_of_int 2) (n_of_int 64) in
  List.iter (fun q ->
      if not !stop then begin
        let arg () = nh (String.sub q 1 (String.length q - 1)) in
        match q.[0] with
        | 's' ->
          let c = arg () in
          if N.ltb (N.sub !mx.(!cur) !idx.(!cur)) c then (parts := "ERR" :: !parts; stop := true)
          else begin
            parent := Array.append !parent [| !cur |]; idx := Array.append !idx [| N0 |];
            mx := Array.append !mx [| c |]; lim := Array.append !lim [| c |];
            cur := Array.length !parent - 1; parts := "sub" :: !parts
          end
        | 'u' -> cur := !parent.(!cur); parts := "up" :: !parts
        | 'w' -> cur := int_of_n (arg ()); parts := "sw" :: !parts
        | 'U' ->
          let p = !parent.(!cur) in
          let i' = N.modulo (N.add !idx.(p) !idx.(!cur)) two64 in
          !idx.(p) <- i'; cur := p; parts := ("up" ^ hn i') :: !parts
        | 'r' when (let k = arg () in N.ltb N0 k &&
                    (N.ltb (N.sub (N.sub two64 (n_of_int 1)) !idx.(!cur)) k || N.ltb !mx.(!cur) (N.add !idx.(!cur) k))) ->
          (* checkedIndexUpdate refuses before the stream is touched: nothing changes *)
          parts := "REF" :: !parts
        | 'r' ->
          let ks = chain !cur in
          (match dr_read_io_chain !u (List.map (fun k -> !lim.(k)) ks) !idx.(!cur) !mx.(!cur) (arg ()) with
           | OK (((bs, u'), lims'), i') ->
             u := u'; List.iter2 (fun k l -> !lim.(k) <- l) ks lims'; !idx.(!cur) <- i'; parts := hb bs :: !parts
           | Err -> parts := "ERR" :: !parts; stop := true
           | Panic -> parts := "PANIC" :: !parts; stop := true)
        | _ -> failwith "bad script"
      end) (String.split_on_char ',' script);
  String.concat "," (List.rev !parts)

(* the stream delivers only the first [got] bytes of data although scope = len(data) *)
let c13_read kind zh tys data got =
  let t = ty_of tys in
  let bs = bytes_of_hex data in
  let scope = n_of_int (List.length bs) in
  let rec firstn k l = if k = 0 then [] else match l with [] -> [] | x :: r -> x :: firstn (k-1) r in
  let delivered = if got = "full" then bs else firstn (int_of_n (nh got)) bs in
  if kind = "view" then
    (match view_deserialize_scoped zh t delivered scope with
     | OK n -> "OK " ^ rs hb (ser_node t n)
     | Err -> "ERR" | Panic -> "PANIC")
  else
    (match flat_decode_scoped t CFresh delivered scope with
     | OK (v, _) -> "OK " ^ rs hb (flat_enc t v)
     | Err -> "ERR" | Panic -> "PANIC")

let c13_write_eager kind zh tys vals budget =
  let t = ty_of tys and v = val_of vals in
  let enc = if kind = "view" then
      (match from_val zh t v with OK n -> ser_node t n | Err -> Err | Panic -> Panic)
    else flat_enc t v in
  match enc with
  | OK bs ->
    let (w, ok) = ew_write_all_eager { w_budget = Some (nh budget); w_accepted = []; w_n = N0 } [bs] in
    Printf.sprintf "err=%s accepted=%s written=%s" (show_bool (not ok)) (hb w.w_accepted) (hn w.w_n)
  | Err -> "enc=ERR" | Panic -> "enc=PANIC"

let c13_write kind zh tys vals budget =
  let t = ty_of tys and v = val_of vals in
  let enc = if kind = "view" then
      (match from_val zh t v with OK n -> ser_node t n | Err -> Err | Panic -> Panic)
    else flat_enc t v in
  match enc with
  | OK bs ->
    let (w, ok) = ew_write_all { w_budget = Some (nh budget); w_accepted = []; w_n = N0 } [bs] in
    (* inflight: the counter equals the accepted bytes in EVERY state of the writer, hence also
       at the start of each call into the sink (C13_writer_counter applied to the calls made so far) *)
    Printf.sprintf "err=%s accepted=%s written=%s inflight=1" (show_bool (not ok)) (hb w.w_accepted) (hn w.w_n)
  | Err -> "enc=ERR" | Panic -> "enc=PANIC"

let c13_write_chunked kind zh tys vals budget chunk =
  let t = ty_of tys and v = val_of vals in
  let enc = if kind = "view" then
      (match from_val zh t v with OK n -> ser_node t n | Err -> Err | Panic -> Panic)
    else flat_enc t v in
  match enc with
  | OK bs ->
    let (w, ok) = cw_write_all { cw_budget = Some (nh budget); cw_chunk = nh chunk; cw_accepted = []; cw_n = N0 } [bs] in
    Printf.sprintf "err=%s accepted=%s written=%s" (show_bool (not ok)) (hb w.cw_accepted) (hn w.cw_n)
  | Err -> "enc=ERR" | Panic -> "enc=PANIC"

(* ---- C20 ---- *)
let c20 zh tys data =
  let t = ty_of tys in
  let bs = bytes_of_hex data in
  let (r, a) = view_deserialize_a zh t bs in
  let len = n_of_int (List.length bs) in
  let (fr, fa) = flat_decode_a t CFresh bs in
  Printf.sprintf "res=%s malloc=%s bound=%s fres=%s fmalloc=%s fbound=%s"
    (match r with OK _ -> "OK" | Err -> "ERR" | Panic -> "PANIC")
    (hn a) (hn (N.add (N.mul (N.mul (n_of_int 2) (perbyte t)) len) (foot t)))
    (match fr with OK _ -> "OK" | Err -> "ERR" | Panic -> "PANIC")
    (hn fa) (hn (N.add (N.mul (N.mul (n_of_int 2) (fperbyte t)) len) (N.add (N.add (fnew t) (n_of_int 96)) (ffoot t))))


(* flat decode into a recycled destination (prior state from the previous value) *)
let c20r tys data prevs =
  let t = ty_of tys in
  let bs = bytes_of_hex data in
  let len = n_of_int (List.length bs) in
  let (fr, fa) = flat_decode_a t (ctree_of t (val_of prevs)) bs in
  Printf.sprintf "fres=%s fmalloc=%s fbound=%s"
    (match fr with OK _ -> "OK" | Err -> "ERR" | Panic -> "PANIC")
    (hn fa) (hn (N.add (N.mul (N.mul (n_of_int 2) (fperbyte t)) len) (N.add (N.add (fnew t) (n_of_int 96)) (ffoot t))))

(* ---- extras: Uint8*HTR, Encode/Decode, Sum, Skip, dynamic hex ---- *)
let u8htr h zh kind data limit =
  let bs = bytes_of_hex data in
  let spec_chunks = chunkify bs in
  if kind = "vec" then
    Printf.sprintf "root=%s spec_root=%s" (rs hb (uint8_vector_htr h zh bs))
      (hb (merkleize_spec h spec_chunks (N.div (N.add (n_of_int (List.length bs)) (n_of_int 31)) (n_of_int 32))))
  else
    let lim = nh limit in
    Printf.sprintf "root=%s spec_root=%s" (rs hb (uint8_list_htr h zh bs lim))
      (hb (mix_in_length h (merkleize_spec h spec_chunks (N.div (N.add lim (n_of_int 31)) (n_of_int 32)))
             (n_of_int (List.length bs))))

let encdec tys vals =
  let t = ty_of tys and v = val_of vals in
  let enc = basic_encode t v in
  let dec = match enc with OK bs -> rs sval (basic_decode t bs) | _ -> "ERR" in
  let short = match enc with
    | OK (_ :: r) -> rs sval (basic_decode t r) | _ -> "ERR" in
  let long = match enc with
    | OK bs -> rs sval (basic_decode t (bs @ [byte_of_int 0])) | _ -> "ERR" in
  Printf.sprintf "enc=%s dec=%s short=%s long=%s spec_enc=%s spec_dec=%s" (rs hb enc) dec short long
    (hb (spec_ser t v)) (sval v)

let decraw tys data = rs (fun v -> "OK " ^ sval v) (basic_decode (ty_of tys) (bytes_of_hex data))

let csum lens =
  hn (codec_sum (if lens = "-" then [] else List.map nh (String.split_on_char ',' lens)))

(* a sequence of reads (r<k>) and skips (s<k>) on a one-shot reader *)
let c13_seq data reqs scope =
  let bs = bytes_of_hex data in
  let (st0, d0) = new_reader bs (nh scope) in
  let st = ref st0 and d = ref d0 in
  let out = ref [] in
  let ok = ref true in
  List.iter (fun q ->
    if !ok then begin
      let k = nh (String.sub q 1 (String.length q - 1)) in
      if q.[0] = 's' then
        (match dr_skip !st !d k with
         | OK (st', d') -> st := st'; d := d'; out := "s" :: !out
         | _ -> ok := false)
      else
        (match dr_read !st !d k with
         | OK ((b, st'), d') -> st := st'; d := d'; out := hb b :: !out
         | _ -> ok := false)
    end) (if reqs = "-" then [] else String.split_on_char ',' reqs);
  if !ok then "OK " ^ String.concat "," (List.rev !out) else "ERR"

let dynu text =
  match dynamic_bytes_unmarshal (bytes_of_hex text) with Some bs -> "OK " ^ hb bs | None -> "ERR"

let dispatch set_cfg cur_h cur_zh (op : string) (args : string list) : string =
  match op, args with
  | "c01", [cfg; t; v; route] -> set_cfg cfg; c01 !cur_h !cur_zh cfg t v route
  | "c02", [cfg; t; v] -> set_cfg cfg; c02 !cur_h !cur_zh t v
  | "c02big", [_; _; _] -> "rt=1"  (* view_decode_encode / C02 round trip, stated for every value; not executed at this size *)
  | "c03", [t; data] -> set_cfg "sha"; c03 !cur_zh t data
  | ("c03h" | "c10h"), [t; head; pad; tail] -> huge_expect t head pad tail
  | "c15", [t] -> c15 t
  | "c17big", [_; _] -> "agree=1"  (* C17: the read-only iterator yields element i at step i, then End; not executed at this size *)
  | "gsame", [_] -> "same=1"  (* two implementations of the one integer definition of C16 *)
  | "c04long", [_; t; l] ->
    (* what the value machine's append / pop rules say for a list of ANY length (VMach.v_step:
       append fails exactly at the limit and then changes nothing; otherwise one element more,
       readable at the old length; pop undoes it), without building the list *)
    (match ty_of t with
     | TList (_, limit) ->
       let l = nh l in
       if n_lt l limit then Printf.sprintf "res=OK len=%s last=1 changed=1 back=1" (hn (N.succ l))
       else Printf.sprintf "res=ERR len=%s same=1" (hn l)
     | _ -> "DRIVER-ERROR c04long: not a list")
  | "bitbig", [total; desc; idx] -> bitbig total desc idx
  | "merk", [cfg; count; limit; leaves] -> set_cfg cfg; c08_merk !cur_h !cur_zh count limit leaves
  | "c08", [cfg; t; v] -> set_cfg cfg; c08 !cur_h !cur_zh t v
  | "c09", [t; v; prev] -> c09 t v prev
  | "c10", [t; data] -> c10 t data
  | "c17", [t; v] -> set_cfg "sha"; c17 !cur_h !cur_zh t v
  | "c17x", [t; v; extra] ->
    set_cfg "sha"; c17_extra := int_of_string extra;
    let r = c17 !cur_h !cur_zh t v in c17_extra := 3; r
  | "ascast", [helper; t; v; mode] -> set_cfg "sha"; ascast !cur_h !cur_zh helper t v mode
  | ("bfb" | "bvb" | "bitb" | "bitg" | "boolb" | "boolg"), _ -> prim op args
  | "woff", [prev; size] -> woff prev size
  | "wprim", [w; x] -> wprim w x
  | "c09x", [t; v] -> c09x t v
  | "c17g", [t; v; kind; g] -> set_cfg "sha"; c17g !cur_h !cur_zh t v kind g
  | "u8htr", [cfg; kind; data; limit] -> set_cfg cfg; u8htr !cur_h !cur_zh kind data limit
  | "encdec", [t; v] -> encdec t v
  | "decraw", [t; data] -> decraw t data
  | "csum", [lens] -> csum lens
  | "c13s", [data; reqs; scope] -> c13_seq data reqs scope
  | "dynu", [text] -> dynu text
  | "bstr", [bs] -> hb (bytes_string (bytes_of_hex bs))
  | "c13p", [data; chunks; eof; fail; reqs] -> c13_prim data chunks eof fail reqs
  | "c13pc", [data; chunks; eof; fail; scope; script] -> c13_prim_chain data chunks eof fail scope script
  | "c13u", [kind; t; data] ->
    (* bytes taken out of the caller's stream by a successful decode = the scope *)
    set_cfg "sha";
    let r = c13_read kind !cur_zh t data "full" in
    if String.length r >= 2 && String.sub r 0 2 = "OK" then hn (n_of_int (List.length (bytes_of_hex data))) else "ERR"
  | "c13r", [kind; t; data; got] -> set_cfg "sha"; c13_read kind !cur_zh t data got
  | "c13w", [kind; t; v; budget] -> set_cfg "sha"; c13_write kind !cur_zh t v budget
  | "c13wc", [kind; t; v; budget; chunk] -> set_cfg "sha"; c13_write_chunked kind !cur_zh t v budget chunk
  | "c13we", [kind; t; v; budget] -> set_cfg "sha"; c13_write_eager kind !cur_zh t v budget
  | "c20", [t; data] -> set_cfg "sha"; c20 !cur_zh t data
  | "c20r", [t; data; prev] -> c20r t data prev
  | "hist", [cfg; t; v; route; ops] ->
    (* cfg "sha!" / "alt!": identity-level history, no comparison with the plain-value machine
       (used for types with List/Vector[bool], whose spec root differs: known finding D3) *)
    let n = String.length cfg in
    let ns = n > 0 && cfg.[n-1] = '!' in
    let cfg' = if ns then String.sub cfg 0 (n-1) else cfg in
    set_cfg cfg'; Hist.no_spec := ns;
    let r = Hist.run_hist !cur_h !cur_zh t v route ops in
    Hist.no_spec := false; r
  | "c12", [cfg; t; v; gs; ope] -> set_cfg cfg; Hist.c12 !cur_h !cur_zh t v gs ope
  | "c11", [tree; op; g; expand; vtree] -> set_cfg "sha"; Hist.c11 !cur_h !cur_zh tree op g expand vtree
  | ("umt" | "umj" | "uut" | "uuj" | "u256ut" | "u256uj" | "hexm" | "hexu"), _ -> c19 op args
  | _ -> failwith ("unknown op " ^ op)
