(* hist.ml — replays an operation history on the three machines of the model in lock step:
   HM (heap: identity + memo), TM (pure trees) and VM (plain values).  Unverified glue. *)
open Model
open Util

let hb = hex_of_bytes
let hn = hex_of_n
let nh = n_of_hex
let sval v = String.map (fun c -> if c = ' ' then '_' else c) (string_of_val v)

let src_of (e : sexp) : src =
  match e with
  | A "none" -> SNone
  | L [A "h"; A k] -> SHandle (nat_of_int (int_of_string k))
  | L [A "lit"; t; v] -> SLit (ty_of_sexp t, val_of_sexp v)
  | _ -> failwith "bad src"

let nat_s k = nat_of_int (int_of_string k)

let fuel = nat_of_int 2000

(* abstraction of a heap address into a pure tree (OCaml recursion, no fuel needed) *)
let rec habs (h : heap) (a : positive) : node =
  match h_cell h a with
  | Some (CLeaf c) -> Leaf c
  | Some (CPair (_, l, r)) -> Pair (habs h l, habs h r)
  | None -> failwith "habs: dangling address"

let show_mout (r : mout res) : string =
  match r with
  | OK MUnit -> "OK"
  | OK (MHandle k) -> "OK_h" ^ string_of_int (int_of_nat k)
  | OK MNoneValue -> "OK_none"
  | Err -> "ERR" | Panic -> "PANIC"
let show_vout (r : vout option) : string =
  match r with
  | Some VUnit -> "OK"
  | Some (VHandle k) -> "OK_h" ^ string_of_int (int_of_nat k)
  | Some VNoneValue -> "OK_none"
  | None -> "ERR"

let rs f r = match r with OK a -> "OK_" ^ f a | Err -> "ERR" | Panic -> "PANIC"

(* a read on a pure tree *)
let read_tree hfn (kind : string) (t : ty) (n : node) (args : string list) : string =
  match kind, args with
  | "htr", [] -> "OK_" ^ hb (root_of hfn n)
  | "ser", [] -> rs hb (ser_node t n)
  | "blen", [] -> rs hn (byte_len t n)
  | "len", [] ->
    (match t with
     | TBitlist k | TList (_, k) -> rs hn (list_length k n)
     | TBitvector k | TVector (_, k) -> "OK_" ^ hn k
     | TContainer fs -> "OK_" ^ hn (n_of_int (List.length fs))
     | _ -> "ERR")
  | "elem", [i] ->
    (match view_get t n (nh i) with
     | OK (GVal v) -> "OK_" ^ sval v
     | OK (GNode (_, c)) -> "OK_" ^ hb (root_of hfn c)
     | Err -> "ERR" | Panic -> "PANIC")
  | "sel", [] -> rs hn (union_selector t n)
  | _ -> failwith ("bad read " ^ kind)

(* the same read on a plain value *)
let read_val hfn (kind : string) (t : ty) (v : val0) (args : string list) : string =
  match kind, args with
  | "htr", [] -> "OK_" ^ hb (spec_htr hfn t v)
  | "ser", [] -> "OK_" ^ hb (spec_ser t v)
  | "blen", [] -> "OK_" ^ hn (n_of_int (List.length (spec_ser t v)))
  | "len", [] ->
    (match t with
     | TBitlist _ | TList _ | TBitvector _ | TVector _ | TContainer _ -> "OK_" ^ hn (v_len t v)
     | _ -> "ERR")
  | "elem", [i] ->
    let i = int_of_n (nh i) in
    (match t, v with
     | (TBitvector _ | TBitlist _), VBits bs ->
       if i < List.length bs then "OK_" ^ sval (VBool (List.nth bs i)) else "ERR"
     | (TVector (e, _) | TList (e, _)), VSeq vs ->
       if i < List.length vs then
         (match e with
          | TUint _ -> "OK_" ^ sval (List.nth vs i)
          | _ -> "OK_" ^ hb (spec_htr hfn e (List.nth vs i)))
       else "ERR"
     | TContainer fs, VCont vs ->
       if i < List.length vs && i < List.length fs then
         "OK_" ^ hb (spec_htr hfn (List.nth fs i) (List.nth vs i))
       else "ERR"
     | _ -> "ERR")
  | "sel", [] -> (match v with VUnion (s, _) -> "OK_" ^ hn s | _ -> "ERR")
  | _ -> failwith ("bad read " ^ kind)

type machines = {
  mutable hm : (positive, heap) mstate;
  mutable tm : (node, unit) mstate;
  mutable vm : vhandle list;
  mutable snaps : (positive * node) list;   (* C05: address and the tree it stood for *)
}

let check_snaps (m : machines) : bool =
  List.for_all (fun (a, n) -> habs m.hm.m_store a = n) m.snaps

(* C06: every memoised pair equals the hash of its children's roots *)
let check_memos hfn (m : machines) : bool =
  let h = m.hm.m_store in
  let ok = ref true in
  let rec root a = match h_cell h a with
    | Some (CLeaf c) -> c
    | Some (CPair (_, l, r)) -> hfn (root l) (root r)
    | None -> failwith "dangling" in
  let rec walk a seen =
    if List.mem a !seen then () else begin
      seen := a :: !seen;
      match h_cell h a with
      | Some (CPair (memo, l, r)) ->
        if memo <> zero_chunk && memo <> hfn (root l) (root r) then ok := false;
        walk l seen; walk r seen
      | _ -> ()
    end in
  let seen = ref [] in
  List.iter (fun hd -> walk hd.h_back seen) m.hm.m_handles;
  List.iter (fun (a, _) -> walk a seen) m.snaps;
  !ok

let no_spec = ref false
let run_hist hfn zh (tys : string) (vals : string) (route : string) (ops : string) : string =
  let t = ty_of_sexp (parse_sexp tys) in
  let v0 = if route = "default" then default_val t else val_of_sexp (parse_sexp vals) in
  let n0 = match (if route = "default" then default_node zh t else from_val zh t v0) with
    | OK n -> n | _ -> failwith "hist: cannot build the initial value" in
  let (a0, heap0) = hm_alloc (heap_init zh) n0 in
  let m = {
    hm = { m_store = heap0; m_handles = [ { h_ty = t; h_back = a0; h_hook = None } ] };
    tm = tm_init t n0;
    vm = v_init t v0;
    snaps = [] } in
  let ops = match parse_sexp ops with L l -> l | _ -> failwith "ops must be a list" in
  let iters : (int * n ref * n) list ref = ref [] in
  let out = Buffer.create 256 in
  let add k v =
    if !no_spec && String.length k > 5 && String.sub k 0 5 = "spec_" then ()
    else Buffer.add_string out (Printf.sprintf "%s=%s " k v) in
  let push_root t n v =
    let (a, hp) = hm_alloc m.hm.m_store n in
    m.hm <- { m_store = hp; m_handles = m.hm.m_handles @ [ { h_ty = t; h_back = a; h_hook = None } ] };
    m.tm <- { m_store = (); m_handles = m.tm.m_handles @ [ { h_ty = t; h_back = n; h_hook = None } ] };
    m.vm <- m.vm @ [ { vh_ty = t; vh_val = v; vh_hook = None } ];
    List.length m.vm - 1 in
  List.iteri (fun k e ->
    let key = "s" ^ string_of_int k in
    (* ill-typed sources are outside the properties: both sides answer ERR without running *)
    let ill_typed (o : op) : bool =
      let hty k = match List.nth_opt m.tm.m_handles (int_of_nat k) with Some x -> Some x.h_ty | None -> None in
      let src_ty = function SLit (t, _) -> Some t | SHandle k -> hty k | SNone -> None in
      let expect = match o with
        | OSet (h, i, _) ->
          (match hty h with
           | Some (TBitvector _ | TBitlist _) -> Some TBool
           | Some (TVector (e, _) | TList (e, _)) -> Some e
           | Some (TContainer fs) -> List.nth_opt fs (int_of_n i)
           | _ -> None)
        | OAppend (h, _) ->
          (match hty h with
           | Some (TBitlist _) -> Some TBool
           | Some (TList (e, _)) -> Some e
           | _ -> None)
        | OChange (h, sel, _) ->
          (match hty h with Some (TUnion (none, opts)) -> union_opt none opts sel | _ -> None)
        | _ -> None in
      let src = match o with
        | OSet (_, _, x) | OAppend (_, x) | OChange (_, _, x) -> src_ty x | _ -> None in
      (match expect, src with Some e, Some s -> e <> s | _ -> false) in
    let machine_op (o : op) =
      if ill_typed o then (add key "ERR"; add ("spec_" ^ key) "ERR") else
      let (hm', rh) = hm_step zh m.hm o in
      let (tm', rt) = tm_step zh m.tm o in
      let (vm', rv) = v_step m.vm o in
      m.hm <- hm'; m.tm <- tm'; m.vm <- vm';
      if show_mout rh <> show_mout rt then failwith ("HM and TM diverge at step " ^ string_of_int k);
      add key (show_mout rh); add ("spec_" ^ key) (show_vout rv) in
    (match e with
     | L [A "rootwrite"; A h; A i] ->
       (* RootView.SetBacking / UnmarshalText: the handle holds a new value; a Root view has no
          hook, so nothing else changes *)
       let hi = int_of_string h in
       (match List.nth_opt m.tm.m_handles hi with
        | Some td when (match td.h_ty with TRoot | TBytes _ -> true | _ -> false) ->
          let ty = td.h_ty in
          let len = match ty with TBytes k -> int_of_n k | _ -> 32 in
          let b = byte_of_int ((int_of_string ("0x" ^ i)) mod 250 + 1) in
          let v = List.init len (fun _ -> b) in
          let c = pad32 v in
          let (a, hp) = hm_alloc m.hm.m_store (Leaf c) in
          let upd l x = List.mapi (fun k y -> if k = hi then x else y) l in
          m.hm <- { m_store = hp; m_handles = upd m.hm.m_handles { h_ty = ty; h_back = a; h_hook = None } };
          m.tm <- { m.tm with m_handles = upd m.tm.m_handles { h_ty = ty; h_back = Leaf c; h_hook = None } };
          m.vm <- upd m.vm { vh_ty = ty; vh_val = VBytes v; vh_hook = None };
          add key "OK"; add ("spec_" ^ key) "OK"
        | _ -> add key "ERR"; add ("spec_" ^ key) "ERR")
     | L [A "repoint"; A h; A k] ->
       (* SetBacking on a view without a parent hook: the handle now stands for the tree (and the
          value) of handle k; nothing else changes *)
       let hi = int_of_string h and ki = int_of_string ("0x" ^ k) in
       (match List.nth_opt m.hm.m_handles hi, List.nth_opt m.hm.m_handles ki,
              List.nth_opt m.tm.m_handles hi, List.nth_opt m.tm.m_handles ki,
              List.nth_opt m.vm hi, List.nth_opt m.vm ki with
        | Some ha, Some hk, Some ta, Some tk, Some va, Some vk
          when ha.h_ty = hk.h_ty && ha.h_hook = None && ta.h_hook = None && va.vh_hook = None
               && (match ha.h_ty with TVector _ | TList _ | TContainer _ | TUnion _ | TBitvector _ | TBitlist _ -> true | _ -> false) ->
          let upd l x = List.mapi (fun j y -> if j = hi then x else y) l in
          m.hm <- { m.hm with m_handles = upd m.hm.m_handles { ha with h_back = hk.h_back } };
          m.tm <- { m.tm with m_handles = upd m.tm.m_handles { ta with h_back = tk.h_back } };
          m.vm <- upd m.vm { va with vh_val = vk.vh_val };
          add key "OK"; add ("spec_" ^ key) "OK"
        | _ -> add key "ERR"; add ("spec_" ^ key) "ERR")
     | L [A "iter"; A h] ->
       (* Iter(): the element count is fixed when the iterator is made; Next() is Get(i), i++ *)
       let hi = int_of_string h in
       (match List.nth_opt m.tm.m_handles hi, List.nth_opt m.vm hi with
        | Some td, Some vd ->
          let len0 = match td.h_ty, vd.vh_val with
            | TVector (e, n), _ when not (is_basic_elem e) -> Some n
            | TList (e, _), VSeq vs when not (is_basic_elem e) -> Some (n_of_int (List.length vs))
            | TContainer fs, _ -> Some (n_of_int (List.length fs))
            | _ -> None in
          (match len0 with
           | Some l ->
             iters := !iters @ [ (hi, ref N0, l) ];
             let r = "OK_i" ^ string_of_int (List.length !iters - 1) in
             add key r; add ("spec_" ^ key) r
           | None -> add key "ERR"; add ("spec_" ^ key) "ERR")
        | _ -> add key "ERR"; add ("spec_" ^ key) "ERR")
     | L [A "next"; A k] ->
       (match List.nth_opt !iters (int_of_string k) with
        | None -> add key "ERR"; add ("spec_" ^ key) "ERR"
        | Some (hi, idx, len0) ->
          if N.ltb !idx len0 then begin
            let i = !idx in
            idx := N.succ i;
            machine_op (OGet (nat_of_int hi, i))
          end else (add key "END"; add ("spec_" ^ key) "END"))
     | L [A "get"; A h; A i] -> machine_op (OGet (nat_s h, nh i))
     | L [A "uvalue"; A h] -> machine_op (OUValue (nat_s h))
     | L [A "copy"; A h] -> machine_op (OCopy (nat_s h))
     | L [A "set"; A h; A i; s] -> machine_op (OSet (nat_s h, nh i, src_of s))
     | L [A "append"; A h; s] -> machine_op (OAppend (nat_s h, src_of s))
     | L [A "pop"; A h] -> machine_op (OPop (nat_s h))
     | L [A "change"; A h; A sel; s] -> machine_op (OChange (nat_s h, nh sel, src_of s))
     | L [A "new"; ts; vs] ->
       let t' = ty_of_sexp ts and v' = val_of_sexp vs in
       (match from_val zh t' v' with
        | OK n -> let id = push_root t' n v' in
          add key ("OK_h" ^ string_of_int id); add ("spec_" ^ key) ("OK_h" ^ string_of_int id)
        | _ -> add key "ERR")
     | L [A "snap"; A h] ->
       let hd = List.nth m.hm.m_handles (int_of_string h) in
       m.snaps <- (hd.h_back, habs m.hm.m_store hd.h_back) :: m.snaps;
       add key "OK"
     | L [A "htrpanic"; A _] -> add key "OK"  (* an aborted root request: nothing observable changes *)
     | L [A "rebuild"; A h] | L [A "rebuildf"; A h] ->
       (* the tree is rebuilt node by node with its memos (a loader): nothing changes *)
       let hi = int_of_string h in
       (match List.nth_opt m.hm.m_handles hi with
        | Some ha when ha.h_hook = None
                    && (match ha.h_ty with TVector _ | TList _ | TContainer _ | TUnion _ | TBitvector _ | TBitlist _ -> true | _ -> false) ->
          add key "OK"
        | _ -> add key "ERR")
     | L [A "summ"; A _; A _] -> add key "OK"  (* a summarised copy is made elsewhere: nothing changes *)
     | L [A "reinit"] | L [A "reinitx"] -> add key "OK"
     | L [A "memo"] -> add key (if check_memos hfn m then "OK" else "STALE")
     | L [A "count"; A h] ->
       let i = int_of_string h in
       let hd = List.nth m.hm.m_handles i in
       (match h_merkle hfn fuel m.hm.m_store hd.h_back with
        | OK ((r, hp), c) ->
          m.hm <- { m.hm with m_store = hp };
          add key ("OK_" ^ hb r ^ "_n" ^ hn c)
        | _ -> add key "PANIC")
     | L (A kind :: A h :: args) when List.mem kind ["htr"; "ser"; "blen"; "len"; "elem"; "sel"] ->
       let i = int_of_string h in
       let args = List.map (function A s -> s | _ -> failwith "bad arg") args in
       let hd = List.nth m.hm.m_handles i in
       let td = List.nth m.tm.m_handles i in
       let vd = List.nth m.vm i in
       let rh =
         if kind = "htr" then
           (match h_merkle hfn fuel m.hm.m_store hd.h_back with
            | OK ((r, hp), _) -> m.hm <- { m.hm with m_store = hp }; "OK_" ^ hb r
            | _ -> "PANIC")
         else read_tree hfn kind hd.h_ty (habs m.hm.m_store hd.h_back) args in
       let rt = read_tree hfn kind td.h_ty td.h_back args in
       if rh <> rt then failwith ("HM and TM reads diverge at step " ^ string_of_int k);
       add key rh;
       add ("spec_" ^ key) (read_val hfn kind vd.vh_ty vd.vh_val args)
     | _ -> failwith "bad op");
    if not (check_snaps m) then add ("snapbad" ^ string_of_int k) "1") ops;
  add "snaps" (if check_snaps m then "ok" else "bad");
  String.trim (Buffer.contents out)

(* ---- C12: one read or mutation on a (possibly partial) tree, TM only ---- *)
let show_steps hfn (l : istep list) : string =
  if l = [] then "-" else
  String.concat "," (List.map (fun s -> match s with
    | IVal (VUint x) -> hn x
    | IVal (VBool b) -> show_bool b
    | IVal v -> sval v
    | INode (t, n) -> hb (root_of hfn n)
    | IEnd -> "END" | IErr -> "ERR" | IPanic -> "PANIC") l)

let single_op hfn zh (t : ty) (n : node) (e : sexp) : string =
  match e with
  | L [A "ro"] -> show_steps hfn (ro_iter t n (nat_of_int 1))
  | L [A "ix"] -> show_steps hfn (ix_iter t n (nat_of_int 1))
  | L (A kind :: args) when List.mem kind ["htr"; "ser"; "blen"; "len"; "elem"; "sel"] ->
    read_tree hfn kind t n (List.map (function A s -> s | _ -> failwith "bad arg") args)
  | L [A "setsumm"; A i; A g; s] ->
    (* the value written is a summary leaf: the result is the full write with that position
       summarised afterwards *)
    let (st, r) = tm_step zh (tm_init t n) (OSet (O, nh i, src_of s)) in
    (match r with
     | OK _ ->
       let b = (List.hd st.m_handles).h_back in
       (match summarize zh hfn b (nh g) with
        | OK b' -> "OK_" ^ hb (root_of hfn b') ^ "_" ^ (match ser_node t b' with OK bs -> hb bs | Err -> "ERR" | Panic -> "PANIC")
        | Err -> "ERR" | Panic -> "PANIC")
     | Err -> "ERR" | Panic -> "PANIC")
  | _ ->
    let o = match e with
      | L [A "set"; A i; s] -> OSet (O, nh i, src_of s)
      | L [A "append"; s] -> OAppend (O, src_of s)
      | L [A "pop"] -> OPop O
      | L [A "change"; A sel; s] -> OChange (O, nh sel, src_of s)
      | _ -> failwith "bad c12 op" in
    let (st, r) = tm_step zh (tm_init t n) o in
    (match r with
     | OK _ ->
       let b = (List.hd st.m_handles).h_back in
       "OK_" ^ hb (root_of hfn b) ^ "_" ^ (match ser_node t b with OK bs -> hb bs | Err -> "ERR" | Panic -> "PANIC")
     | Err -> "ERR" | Panic -> "PANIC")

let c12 hfn zh tys vals gs ope =
  let t = ty_of_sexp (parse_sexp tys) and v = val_of_sexp (parse_sexp vals) in
  let gs = match parse_sexp gs with L l -> List.map (function A s -> nh s | _ -> failwith "g") l | _ -> failwith "gs" in
  let e = parse_sexp ope in
  match from_val zh t v with
  | OK n ->
    let part = List.fold_left (fun acc g -> match acc with
        | OK m -> summarize zh hfn m g | x -> x) (OK n) gs in
    (match part with
     | OK p ->
       Printf.sprintf "summ=OK proot=%s full=%s part=%s spec_proot=%s" (hb (root_of hfn p))
         (single_op hfn zh t n e) (single_op hfn zh t p e) (hb (root_of hfn n))
     | Err -> "summ=ERR" | Panic -> "summ=PANIC")
  | _ -> failwith "c12: cannot build value"

(* ---- C11: navigation on the heap, with node identity ---- *)
let rec build_tree zh (h : heap) (e : sexp) : positive * heap =
  match e with
  | L [A "L"; A hex] -> hm_alloc h (Leaf (pad32 (bytes_of_hex hex)))
  | L [A "Z"; A d] -> (zero_addr (nat_of_int (int_of_string d)), h)
  | L [A "P"; l; r] ->
    let (la, h1) = build_tree zh h l in
    let (ra, h2) = build_tree zh h1 r in
    let (a, h3) = h_alloc h2 (CPair (zero_chunk, la, ra)) in (a, h3)
  | _ -> failwith "bad tree sexp"

let rec pos_to_int = function XH -> 1 | XO p -> 2 * pos_to_int p | XI p -> 2 * pos_to_int p + 1

(* canonical dump: ids by first visit (preorder); shared nodes print as @id; the
   process-wide zero nodes print as Z<d> *)
let dumper () =
  let ids : (int, int) Hashtbl.t = Hashtbl.create 64 in
  let next = ref 0 in
  let rec dump (h : heap) (a : positive) : string =
    let ai = pos_to_int a in
    if ai <= 65 then "Z" ^ string_of_int (ai - 1) else
    match Hashtbl.find_opt ids ai with
    | Some id -> "@" ^ string_of_int id
    | None ->
      let id = !next in incr next; Hashtbl.add ids ai id;
      (match h_cell h a with
       | Some (CLeaf c) -> "L" ^ string_of_int id ^ ":" ^ hb c
       | Some (CPair (_, l, r)) ->
         let ls = dump h l in let rs = dump h r in
         "P" ^ string_of_int id ^ "(" ^ ls ^ "," ^ rs ^ ")"
       | None -> "?") in
  dump

let c11 hfn zh (tree : string) (op : string) (g : string) (expand : string) (vtree : string) : string =
  let (a, h) = build_tree zh (heap_init zh) (parse_sexp tree) in
  let dump = dumper () in
  let d0 = dump h a in
  let orig_root = hb (root_of hfn (habs h a)) in
  let g = nh g in
  (* an index of more than 64 bits (a caller-defined Gindex): the library walks its path with
     the same code; the model's functions on paths are used directly (TreePath.v) *)
  let gbits = match g with N0 -> [] | Npos p ->
    let rec bits p acc = match p with XH -> acc | XO q -> bits q (false :: acc) | XI q -> bits q (true :: acc) in
    bits p [] in
  let deep = List.length gbits > 63 in
  let h_getter h a g = if deep then h_get_path h a gbits else h_getter h a g in
  let h_setter zh h a g e v = if deep then h_set_path zh h a gbits e v else h_setter zh h a g e v in
  let setter zh n g e v = if deep then set_path zh n gbits e v else setter zh n g e v in
  let summarize zh hfn n g = if deep then summarize_path zh hfn n gbits else summarize zh hfn n g in
  match op with
  | "get" ->
    (match h_getter h a g with
     | OK b -> Printf.sprintf "res=OK orig=%s node=%s" d0 (dump h b)
     | Err -> "res=ERR" | Panic -> "res=PANIC")
  | "set" ->
    let (va, h1) = build_tree zh h (parse_sexp vtree) in
    let dv = dump h1 va in
    (match h_setter zh h1 a g (expand = "1") va with
     | OK (a', h2) ->
       Printf.sprintf "res=OK orig=%s val=%s new=%s root=%s origroot=%s" d0 dv (dump h2 a')
         (hb (root_of hfn (habs h2 a'))) (hb (root_of hfn (habs h2 a)))
     | Err -> "res=ERR origroot=" ^ orig_root | Panic -> "res=PANIC")
  | "set2" ->
    let (va, h1) = build_tree zh h (parse_sexp vtree) in
    let rec plain = function
      | Leaf c -> "L:" ^ hb c
      | Pair (l, r) -> "P(" ^ plain l ^ "," ^ plain r ^ ")" in
    let n0 = habs h1 a in
    let second = Leaf (List.init 32 (fun _ -> byte_of_int 0x5a)) in
    (match setter zh n0 g (expand = "1") (habs h1 va), setter zh n0 g (expand = "1") second with
     | OK t1, OK t2 ->
       let r1 = hb (root_of hfn t1) and r2 = hb (root_of hfn t2) in
       Printf.sprintf "res=OK t1=%s r1=%s t2=%s r2=%s raw1=%s raw2=%s origroot=%s" (plain t1) r1 (plain t2) r2 r1 r2 orig_root
     | Err, _ -> "res=ERR" | _, Err -> "res=ERR2" | _ -> "res=PANIC")
  | "summ" ->
    (match summarize zh hfn (habs h a) g with
     | OK n' ->
       let rec plain = function
         | Leaf c -> "L:" ^ hb c
         | Pair (l, r) -> "P(" ^ plain l ^ "," ^ plain r ^ ")" in
       Printf.sprintf "res=OK root=%s shape=%s spec_root=%s" (hb (root_of hfn n')) (plain n') orig_root
     | Err -> "res=ERR" | Panic -> "res=PANIC")
  | "filld" | "filll" | "fillc" ->
    let bottom = habs h a in
    let d = nat_of_int (int_of_n g) in
    let len = match parse_sexp vtree with
      | L [A "L"; A hex] when String.length hex >= 2 -> n_of_int (int_of_string ("0x" ^ String.sub hex 0 2))
      | _ -> N0 in
    let r = match op with
      | "filld" -> OK (fill_to_depth bottom d)
      | "filll" -> fill_to_length zh bottom d len
      | _ -> fill_to_contents zh (List.init (int_of_n len) (fun _ -> bottom)) d in
    (match r with
     | OK n' -> let rt = hb (root_of hfn n') in Printf.sprintf "res=OK memo=1 root=%s memo2=1 raw=%s" rt rt
     | Err -> "res=ERR" | Panic -> "res=PANIC")
  | _ -> failwith "bad c11 op"
