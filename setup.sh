#!/bin/sh
# Builds the framework from files on disk only (offline): Coq development (full .vo build),
# extraction + OCaml driver, and the Go harness compiled against /repo's working tree.
set -e
cd "$(dirname "$0")"
export GOFLAGS=-mod=mod GOPROXY=off GOSUMDB=off GOTOOLCHAIN=local
( cd coq && coq_makefile -f _CoqProject -o Makefile >/dev/null && timeout 3000 make -j16 >/dev/null )
( cd ocaml && rm -f model.ml model.mli driver && ./build.sh )
cp /repo/go.sum harness/go.sum
( cd harness && go test -tags verif -run '^$' -count=1 . >/dev/null )
echo setup ok
