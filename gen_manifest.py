#!/usr/bin/env python3
"""gen_manifest.py — writes MANIFEST.json from the table below.  A property is listed as
a check when its theorem file coq/Props/<id>.v is part of coq/_CoqProject; otherwise it
is listed under not_applicable with the reason (none should remain there at the end)."""
import json, os

ROOT = os.path.dirname(os.path.abspath(__file__))
listed = open(os.path.join(ROOT, "coq", "_CoqProject")).read().split()

COMMON_NOTE = ("Trusted base: Coq 8.16.1 kernel (no native_compute; coqchk in the thorough tier); axioms as printed by "
               "Print Assumptions on each run (recorded in the evidence; currently none); extraction with ExtrOcamlBasic only; "
               "unverified glue (ocaml/util.ml incl. SHA-256, ocaml/driver*.ml, ocaml/hist.ml, harness/*.go, check.py, "
               "props_rules.py); Go runtime and standard library are modelled, not verified. The model is hand-written: "
               "it is tied to /repo by the correspondence run (differential testing from VERIF_SEED), whose strength is "
               "bounded by the generators described in the evidence.")

T = {
 "C01": ("hash-tree-root of every construction route equals the SSZ spec root",
         "Theorems (Props/C01.v, for every pair-hash H): any tree representing a value has the spec root (repr_root); the constructors and DefaultNode are total and produce representing trees (from_val_repr, default_repr), hence C01_from_val / C01_default; C01_bool_seq_refuted proves the exclusion no_bool_seq is necessary (known finding D3). Deserialization and mutation routes are covered by the C03/C04 theorems (decoded / mutated trees satisfy repr). Correspondence: Go roots for default/constructor/deserialize/mutation-chain routes under SHA-256 and an alternative hash vs model roots vs spec roots.",
         "machine-checked proof (Coq) of the model + differential correspondence of model and implementation"),
 "C02": ("serialization is spec-exact and round-trips",
         "Theorems (Props/C02.v): a representing tree serializes to spec_ser and reports its length; decoding spec bytes yields a representing tree; getters return the represented components. Correspondence: Serialize, ValueByteLength, Deserialize->Serialize/root/getter read-back vs model vs spec.",
         "machine-checked proof (Coq) + differential correspondence"),
 "C03": ("view decoding is canonical, total, panic-free",
         "Theorems (Props/C03.v): view_deserialize never panics; an accepted input is spec_ser of a typed value and the tree represents it; every spec encoding is accepted. Correspondence: accept/reject/panic and re-serialization on exhaustive small strings (12 small types) and structure-aware corruptions; model also checked against the spec on every accepted input; inputs of 2^32 bytes and more are fed lazily and checked against the theorems' statement (accept => whole input consumed and reproduced) since the model cannot be run on them.",
         "machine-checked proof (Coq) + differential correspondence incl. exhaustive small inputs"),
 "C04": ("typed mutations behave like a plain value model",
         "Theorems (Props/C04.v): the tree machine TM simulates the plain-value machine VM step by step (relation: every handle's backing represents its value), lifted to all finite histories; errors leave the state unchanged. Correspondence: exhaustive short histories on 8 small types and random long histories with retained/nested sub-views: Go vs HM vs TM vs VM after every step; structure-shared lists of 2^20..2^32+5 elements against the value machine's append/pop rule.",
         "machine-checked refinement proof (Coq) + differential correspondence on histories"),
 "C05": ("backing trees are persistent",
         "Theorems (Props/C05.v): on the heap machine every step only appends cells; h_merkle only fills unset memos; abstraction of every existing address is stable over all histories; copies are detached; the heap machine refines the pure tree machine of C04 step by step (C05_heap_machine_refines_tree_machine, C05_refined_history_root). Correspondence: snapshots (node pointer, raw root) taken before steps and re-derived from the raw node structure after every later step, incl. zero nodes.",
         "machine-checked invariant proof (Coq) + differential correspondence with raw re-derivation"),
 "C06": ("cached Merkle roots are never stale",
         "Theorems (Props/C06.v): memo_ok is an invariant of every machine step and of h_merkle; under it h_merkle returns the root of the abstraction, independent of earlier requests. Correspondence: hash requests at every subset of positions of short histories, every reachable memoised pair re-derived from its children.",
         "machine-checked invariant proof (Coq) + differential correspondence"),
 "C07": ("hashing is incremental",
         "Theorems (Props/C07.v, premise H a b <> 0 as in Go's memo convention): a second request costs 0 hashes; after one path-copying write with a hashed value at most one hash per level. Correspondence: exact pair-hash counts Go vs heap model (second requests, single mutations incl. through sub-views, expanding appends at limits up to 2^40).",
         "machine-checked proof (Coq) + exact hash-count correspondence"),
 "C08": ("flat Merkleization helpers equal the spec",
         "Theorems (Props/C08.v, for every H): the streaming Merkleize loop equals merkleize_spec for count <= limit < 2^64; each flat helper equals the spec root of its typed value, and therefore the Merkle root of every backing that represents the value, in particular of the constructed view (C08_flat_root_is_view_root). Correspondence: all (count,limit) up to 34 (70 thorough), limits 2^k(+-1) up to 2^64-1, generic flat values; Go = model = spec, and flat root = root of the tree-backed view of the same value.",
         "machine-checked proof (Coq) of the transcribed loop + differential correspondence"),
 "C09": ("flat codec encodes spec bytes and round-trips",
         "Theorems (Props/C09.v): flat_enc = spec_ser, flat_len = its length, decoding the encoding into ANY prior destination state returns the value. Correspondence: encode / ByteLength / decode into fresh and reused (shorter, longer) destinations.",
         "machine-checked proof (Coq) + differential correspondence"),
 "C10": ("flat codec decoding is canonical and panic-free",
         "Theorems (Props/C10.v): flat_decode never panics; accepted inputs of variable-size types are spec_ser of the decoded typed value; the flat decoder and the view decoder accept the same byte strings and yield the same value (C10_accepts_what_the_view_decoder_accepts, C10_same_value_as_the_view_decoder). Correspondence: exhaustive small strings and corruptions, re-encoding, single values of more than a megabyte, inputs of 2^32 bytes and more (fed lazily, checked against the theorems' statement); a sample of each run is also evaluated inside Coq (extraction cross-check).",
         "machine-checked proof (Coq) + differential correspondence incl. exhaustive small inputs"),
 "C11": ("tree navigation laws",
         "Theorems (Props/C11.v, 44 statements): get-after-set, off-path subtrees unchanged (same ADDRESS on the heap), original unchanged, navigation errors never panics, expansion equivalent to the materialised zero subtree, non-zero summaries refuse expansion, summarising preserves the root, heap path-copy refines the pure setter. Correspondence: all shapes to depth 2 (3 thorough, every 7th) x all indices x ops with pointer identity by canonical numbering; random trees to depth 12, 63-bit indices; caller-defined generalized indices of depth 3..130 on spine trees (the theorems are about paths of any length; summarize_path agrees with summarize on every 64-bit index).",
         "machine-checked proof (Coq) + differential correspondence with node identity"),
 "C12": ("partial backings are handled safely",
         "Theorems (Props/C12.v): summarising preserves the root; on a summarised tree every read/mutation of the model is an error or agrees with the full tree. Correspondence: 1..3 summarised positions (exhaustive for small backings) x reads, iterators and single mutations; Go vs model, and the error-or-same relation checked on both.",
         "machine-checked proof (Coq) + differential correspondence + property relation on every case"),
 "C13": ("codec I/O is independent of chunking and surfaces faults",
         "Theorems (Props/C13.v): the fill loop over any legal delivery schedule returns the same bytes as a one-shot reader (C13_schedule_indep, C13_reader_agrees ties it to the reader model the decoders use); a stream that ends or fails before k bytes makes the read fail; at decoder level a stream shorter than the declared scope never yields a value, for the view decoders (C13_short_stream_decode) and for the flat decoders (C13_short_stream_flat); Skip consumes like a read; a failing writer (lazy or eager error reporting, also one that makes short writes: C13_chunked_writer_prefix, C13_chunked_equals_unchunked) accepts exactly a prefix and Written equals it. Reads through nested sub-scopes: the chain of nested io.LimitedReaders (IOChain.v) over any delivery schedule agrees with the in-memory reader that the decoder models use, for every nesting depth (C13_chain_read_value, C13_chain_agrees_with_reader with the well-formedness of reachable chains, C13_chain_schedule_indep, C13_chain_short_stream). Partial: schedule independence of whole decoders is by the decoders reading only through these primitives (not restated over decoders). Correspondence: primitive read sequences over random schedules, scripts of SubScope / Read / back-to-parent over scheduled and failing readers; every delivery schedule and every failure position for sampled values (view and flat), including offsets-only encodings whose truncated offset table leaves stale scratch bytes.",
         "machine-checked proof (Coq) of the I/O primitives + fault/schedule enumeration against the implementation"),
 "C14": ("forks of a hashed tree can be used concurrently",
         "Theorems (Props/C14.v): a fully memoised heap prefix is bit-identical after any step or hash request of any fork (frozen prefix); hash requests commute with steps; fork independence: in EVERY interleaving of the events (all seven operations and hash requests) of any number of forks with disjoint, hook-closed handle sets, each fork observes exactly the outputs and roots of its own sequential run (C14_fork_outputs_independent on the tree machine, C14_interleaving_equals_sequential on the heap machine with its shared memo writes). Partial: the Go memory model is not modelled; data races are searched by go test -race on 2..16 goroutines, not proved absent. Correspondence: per-goroutine observations vs the sequential model replay.",
         "machine-checked proof (Coq) of the sequential-equivalence argument + race detector runs"),
 "C15": ("size bounds and fixed-size flags are sound",
         "Theorems (Props/C15.v): fixed flag = spec for every type; min/max/size = spec under max < 2^64 (wrap-free); every typed value's encoding length lies within the bounds; both bounds are attained. Correspondence: the four accessors on ~3000 types vs model vs spec.",
         "machine-checked proof (Coq) + differential correspondence"),
 "C16": ("generalized-index and bit-length arithmetic is exact",
         "Theorems (Props/C16.v, 27 statements): bit_index = log2, bit_length = size, cover_depth = log2_up on all 64-bit inputs; every Gindex64 method on 2^d+p; ToGindex64 accepts exactly d<64, i<2^d; minimal LE/BE/left-aligned encodings decode back. Correspondence: all v < 2^12 (2^17 thorough), 2^k(+-1), random per bit-length class, (index,depth) grid over all 256 depths; several iterators interleaved; every entry point again as the first call of a fresh process (harness/first).",
         "machine-checked proof (Coq) + differential correspondence"),
 "C17": ("iterators agree with indexed access",
         "Theorems (Props/C17.v): the stack-machine node iterator yields bottom nodes 0..len-1 in order then End forever; packed and bit iterators likewise; ReadonlyIter, Iter and Get agree; with missing data an iterator errs, never returns a wrong component. Correspondence: both iterators (+3 calls) and Get on boundary lengths (31/32/33, 255/256/257, 511/512/513), large limits, random series, and malformed backings (a pair grafted where a chunk is expected, a summarised node, a length above the limit: exhaustive over a small corpus); several iterators interleaved; the same reads of one view object from six goroutines under the race detector.",
         "machine-checked proof (Coq) of the explicit state machines + differential correspondence"),
 "C18": ("packed-bitfield helpers agree with a bit-sequence model",
         "Theorems (Props/C18.v, 27 statements): BitlistCheck/BitvectorCheck accept exactly the spec-valid packings; length, get/set, ones-count, zero-test, covers expressed on the unpacked sequence; behaviour on invalid input stated. Correspondence: all strings <= 1 byte (2 thorough) x limits 0..40, 3-byte alphabet strings, random strings.",
         "machine-checked proof (Coq) + differential correspondence"),
 "C19": ("text/JSON conversions are lossless and range-checked",
         "Theorems (Props/C19.v, 30 statements): print/parse round trips for every width incl. uint256, no truncation (the narrowing casts are identities), decimal exactness, denotation of every accepted syntax, fixed-size hex accepts exactly 2k hex digits. strconv.ParseUint / math/big scanning are transcribed (trusted base). Correspondence: all uint8, uint16 (sampled in quick), boundary/random wider, ~2500 numeric texts x 6 entry points, hex texts of every length 0..80; the conversions again from 8 goroutines under the race detector.",
         "machine-checked proof (Coq) + differential correspondence"),
 "C20": ("decoding memory is bounded by input size",
         "Theorems (Props/C20.v, 24 statements): view decoders — the instrumented decoder computes the same result as the decoder; its allocation charge is bounded by 2*perbyte(t)*|input| + foot(t) (C20_bound_top) and by perbyte(t) per byte actually consumed on success, where neither perbyte nor foot depends on a list limit (C20_bound_limit_free); a list length is accepted only if it fits the scope. Flat decoders (codec.DecodingReader helpers, tree.ReadRoots and destinations assembled as downstream users do) — the instrumented flat decoder is faithful (C20_flat_instrumentation_faithful) and charged at most 2*fperbyte(t)*|input| + fnew(t) + 96 + ffoot(t) (C20_flat_bound_top; for types whose bitvector lengths do not wrap uint64, or for any type on inputs below 2^61 bytes; the unrestricted success form is refuted by C20_flat_success_bound_needs_hypothesis), limit-free (C20_flat_bound_limit_free). Partial: the Go allocator is not modelled; measured TotalAlloc per call must stay within 4x the model's charge + 16 KiB, separately for the view and the flat decoder. Correspondence: hostile offset words against limits up to 2^40, corruptions; view and flat decoders.",
         "machine-checked proof (Coq) of the allocation accounting + measured allocation against the model"),
}

checks, na = [], []
for pid in sorted(T):
    title, text, tech = T[pid]
    if ("Props/%s.v" % pid) in listed:
        checks.append(dict(
            property_id=pid,
            quick_cmd="python3 check.py %s --tier quick" % pid,
            thorough_cmd="python3 check.py %s --tier thorough" % pid,
            evidence_file="/verif/evidence/%s.json" % pid,
            replay_cmd_template="python3 check.py %s --replay {path}" % pid,
            engine="coq-model+correspondence",
            level_claimed=dict(category="proof", text=title + ". " + text, design_ref="DESIGN.md section 6, " + pid),
            level_note=COMMON_NOTE,
            technique=tech))
    else:
        na.append(dict(property_id=pid, reason="check under construction in this commit: the theorem file coq/Props/%s.v is not yet part of the build (the correspondence harness exists; the property will be claimed once its theorems check)" % pid))

m = dict(
    version=1,
    setup_cmd="sh setup.sh",
    hooks=dict(
        guard="verif",
        enable="Go build tag `verif` (used only by /verif/harness, a separate module with `replace github.com/protolambda/ztyp => /repo`); no source hooks in /repo: every field the checks inspect is exported",
        baseline_off_cmd="cd /repo && go test -vet=off -count=1 ./...",
        source_commits=[],
        add_only=True),
    engines=[dict(name="coq-model+correspondence", path="/verif/check.py",
                  serves_properties=[c["property_id"] for c in checks],
                  kind_free_text="Coq 8.16 model + theorems (coq/), extracted to OCaml (ocaml/), Go harness (harness/) and a comparison driver (check.py, props_rules.py)")],
    checks=checks,
    notes="fix: commits in /repo (one per defect D1..D21 except the known finding D3, see known_findings.json and DESIGN.md sections 7 and 10.2) are unguarded repairs; no build-tag-guarded hook was needed. Known finding D3 (List/Vector[bool] hashed unpacked) is reported by the C01 check as KNOWN-FINDING.",
    not_applicable=na)
json.dump(m, open(os.path.join(ROOT, "MANIFEST.json"), "w"), indent=1)
print("checks:", [c["property_id"] for c in checks])
print("not yet:", [x["property_id"] for x in na])
