#!/usr/bin/env python3
"""check.py <property> [--tier quick|thorough] [--replay file]

Decides one property of /verif/properties.jsonl for /repo's current working tree:
  1. the Coq development is (re)built and the theorems of coq/Props/<id>.v are re-checked
     (coqc), their `Print Assumptions` output is collected, forbidden constructs are
     searched for;
  2. the extracted model and the OCaml driver are rebuilt if stale;
  3. the Go harness (module replaced by /repo) runs the implementation on generated
     cases; the driver replays the same cases on the model;
  4. the two observation streams are compared under the property's relation.
Exit 0 = held on everything explored; exit 1 + "VIOLATION property=<id> replay=<path>".
Writes /verif/evidence/<id>.json on every run.
"""
import sys, os, re, json, time, subprocess, hashlib, glob, shutil

ROOT = os.path.dirname(os.path.abspath(__file__))
COQ = os.path.join(ROOT, "coq")
OCAML = os.path.join(ROOT, "ocaml")
HARNESS = os.path.join(ROOT, "harness")
WORK = os.path.join(ROOT, "work")
EVID = os.path.join(ROOT, "evidence")
REPLAYS = os.path.join(ROOT, "work", "replays")

GOENV = dict(os.environ, GOFLAGS="-mod=mod", GOPROXY="off", GOSUMDB="off", GOTOOLCHAIN="local",
             CGO_ENABLED=os.environ.get("CGO_ENABLED", "0"))

# properties whose operations do not involve the hash function: a sample of every run is also
# evaluated inside Coq (tools/coqeval.py)
COQEVAL_PROPS = {"C03", "C10", "C15", "C16", "C18", "C19"}

FORBIDDEN = re.compile(r"\b(Admitted|admit|Axiom|Axioms|Parameter|Parameters|Conjecture|Conjectures|"
                       r"Admit Obligations)\b|Unset\s+Guard|bypass_check|-type-in-type|"
                       r"Unset\s+Universe\s+Checking|Unset\s+Positivity")
# axioms of the standard library that may appear (each is named in the evidence when it does)
ALLOWED_AXIOMS = {
    "functional_extensionality_dep", "FunctionalExtensionality.functional_extensionality_dep",
    "Eqdep.Eq_rect_eq.eq_rect_eq", "eq_rect_eq", "proof_irrelevance", "classic", "JMeq_eq",
}


def sh(cmd, cwd=None, env=None, timeout=3600, stdin=None):
    p = subprocess.run(cmd, cwd=cwd, env=env, shell=isinstance(cmd, str), timeout=timeout,
                       stdout=subprocess.PIPE, stderr=subprocess.STDOUT, stdin=stdin)
    return p.returncode, p.stdout.decode("utf-8", "replace")


def strip_comments(src):
    out, depth, i = [], 0, 0
    while i < len(src):
        if src.startswith("(*", i):
            depth += 1; i += 2
        elif src.startswith("*)", i) and depth > 0:
            depth -= 1; i += 2
        else:
            if depth == 0:
                out.append(src[i])
            i += 1
    return "".join(out)


class Fail(Exception):
    pass


def build_coq():
    """Full .vo build of the development (incremental when nothing changed)."""
    if not os.path.exists(os.path.join(COQ, "Makefile")):
        rc, out = sh("coq_makefile -f _CoqProject -o Makefile", cwd=COQ)
        if rc != 0:
            raise Fail("coq_makefile failed:\n" + out)
    rc, out = sh("timeout 3000 make -j16", cwd=COQ, timeout=3100)
    if rc != 0:
        raise Fail("coq build failed:\n" + out[-4000:])
    bad = []
    listed = [l.strip() for l in open(os.path.join(COQ, "_CoqProject")) if l.strip().endswith(".v")]
    for f in [os.path.join(COQ, l) for l in listed] + [os.path.join(COQ, "Extract.v")]:
        src = strip_comments(open(f).read())
        for m in FORBIDDEN.finditer(src):
            bad.append("%s: %s" % (os.path.relpath(f, ROOT), m.group(0)))
    if bad:
        raise Fail("forbidden constructs in the development: " + "; ".join(bad[:10]))


def check_props(pid):
    """Re-check Props/<id>.v with coqc and parse Print Assumptions."""
    f = os.path.join(COQ, "Props", pid + ".v")
    if not os.path.exists(f):
        raise Fail("no theorem file for " + pid)
    src = strip_comments(open(f).read())
    theorems = re.findall(r"^\s*(?:Theorem|Corollary)\s+([A-Za-z0-9_']+)", src, re.M)
    t0 = time.time()
    rc, out = sh(["timeout", "1200", "coqc", "-Q", ".", "Ztyp", "Props/%s.v" % pid], cwd=COQ, timeout=1300)
    if rc != 0:
        return dict(theorems=theorems, discharged=0, axioms=[], ok=False, log=out[-3000:], secs=time.time() - t0)
    closed = out.count("Closed under the global context")
    axioms = []
    for blk in re.findall(r"Axioms:\n((?:.+\n?)+?)(?:\n|$)", out):
        for line in blk.splitlines():
            m = re.match(r"^([A-Za-z0-9_.']+)\s*:", line)
            if m:
                axioms.append(m.group(1))
    printed = len(re.findall(r"Closed under the global context|Axioms:", out))
    ok = True
    log = ""
    for a in axioms:
        if a.split(".")[-1] not in {x.split(".")[-1] for x in ALLOWED_AXIOMS}:
            ok = False
            log += "disallowed axiom: %s\n" % a
    if printed < len(theorems):
        ok = False
        log += "Print Assumptions missing under some theorem (%d < %d)\n" % (printed, len(theorems))
    return dict(theorems=theorems, discharged=len(theorems) if ok else 0, axioms=sorted(set(axioms)),
                ok=ok, log=log, secs=time.time() - t0)


def run_coqchk(pid):
    """Independent re-check of the compiled theorem file and everything it depends on."""
    t0 = time.time()
    rc, out = sh(["timeout", "5400", "coqchk", "-silent", "-o", "-Q", ".", "Ztyp", "Ztyp.Props." + pid],
                 cwd=COQ, timeout=5500)
    axioms = []
    m = re.search(r"\* Axioms:(.*?)\n\s*\n\* ", out, re.S)
    if m:
        axioms = [l.strip() for l in m.group(1).splitlines() if l.strip() and l.strip() != "<none>"]
    return dict(ok=(rc == 0), axioms=axioms, secs=round(time.time() - t0, 1), tail=out[-600:])


def build_driver():
    rc, out = sh("timeout 900 ./build.sh", cwd=OCAML, timeout=1000)
    if rc != 0:
        raise Fail("driver build failed:\n" + out[-3000:])


def run_harness(pid, tier, seed, extra_env=None, race=False):
    os.makedirs(WORK, exist_ok=True)
    for ext in (".in", ".obs", ".model"):
        try:
            os.remove(os.path.join(WORK, pid + ext))
        except FileNotFoundError:
            pass
    env = dict(GOENV, VERIF_SEED=str(seed), VERIF_TIER=tier, VERIF_OUT=WORK)
    if extra_env:
        env.update(extra_env)
    shutil.copyfile(os.path.join(os.environ.get("VERIF_ALT_REPO") or "/repo", "go.sum"), os.path.join(HARNESS, "go.sum"))
    cmd = ["go", "test", "-tags", "verif", "-run", "^Test%s$" % pid, "-count=1", "-timeout", os.environ.get("VERIF_HARNESS_TIMEOUT", "100m"), "."]
    if race:
        env["CGO_ENABLED"] = "1"
        cmd.insert(2, "-race")
    rc, out = sh(cmd, cwd=HARNESS, env=env, timeout=6100)
    return rc, out


def run_driver(pid):
    """Replays the cases on the extracted model; large inputs are sharded over the cores
    (cases are independent of each other)."""
    fin = os.path.join(WORK, pid + ".in")
    fout = os.path.join(WORK, pid + ".model")
    cmd = "ulimit -s unlimited 2>/dev/null; exec " + os.path.join(OCAML, "driver")
    lines = open(fin, "rb").readlines()
    nsh = 12 if len(lines) > 60000 else 1
    if nsh == 1:
        with open(fin, "rb") as i, open(fout, "wb") as o:
            p = subprocess.run(["sh", "-c", cmd], stdin=i, stdout=o, stderr=subprocess.PIPE, timeout=6000)
        if p.returncode != 0:
            raise Fail("driver crashed: " + p.stderr.decode()[-2000:])
        return
    per = (len(lines) + nsh - 1) // nsh
    procs = []
    for k in range(nsh):
        part = lines[k * per:(k + 1) * per]
        pin = os.path.join(WORK, "%s.in.%d" % (pid, k))
        pout = os.path.join(WORK, "%s.model.%d" % (pid, k))
        open(pin, "wb").writelines(part)
        procs.append((subprocess.Popen(["sh", "-c", cmd], stdin=open(pin, "rb"), stdout=open(pout, "wb"),
                                       stderr=subprocess.PIPE), pin, pout))
    with open(fout, "wb") as o:
        for p, pin, pout in procs:
            _, err = p.communicate(timeout=6000)
            if p.returncode != 0:
                raise Fail("driver crashed: " + err.decode()[-2000:])
            o.write(open(pout, "rb").read())
            os.remove(pin)
            os.remove(pout)


def read_stream(path):
    d, order = {}, []
    with open(path, encoding="utf-8", errors="replace") as f:
        for line in f:
            line = line.rstrip("\n")
            if not line:
                continue
            k, _, v = line.partition("\t")
            d[k] = v
            order.append(k)
    return d, order


def load_known():
    p = os.path.join(ROOT, "known_findings.json")
    if not os.path.exists(p):
        return []
    return json.load(open(p))["findings"]


def main():
    import props_rules
    args = sys.argv[1:]
    if not args:
        print(__doc__); sys.exit(2)
    pid = args[0]
    tier = os.environ.get("VERIF_TIER", "quick")
    replay = None
    i = 1
    while i < len(args):
        if args[i] == "--tier":
            tier = args[i + 1]; i += 2
        elif args[i] == "--replay":
            replay = args[i + 1]; i += 2
        else:
            i += 1
    if tier not in ("quick", "thorough"):
        tier = "quick"
    seed = int(os.environ.get("VERIF_SEED", "1") or "1")
    if replay:
        rp = json.load(open(replay))
        seed, tier = rp.get("seed", seed), rp.get("tier", tier)
    t0 = time.time()
    rule = props_rules.RULES[pid]
    chk = None
    alt = os.environ.get("VERIF_ALT_REPO")
    if alt:
        # tooling aid (tools/mutants.py; never used by the registered commands): run the harness
        # against a scratch copy of the repository with private work / evidence directories, and
        # reuse the Coq development and driver as already built and checked in /verif
        global HARNESS, WORK, EVID, REPLAYS
        outd = os.environ["VERIF_ALT_OUT"]
        h2 = os.path.join(outd, "harness")
        if os.path.exists(h2):
            shutil.rmtree(h2)
        shutil.copytree(HARNESS, h2)
        gm = open(os.path.join(h2, "go.mod")).read().replace("=> /repo", "=> " + alt)
        open(os.path.join(h2, "go.mod"), "w").write(gm)
        HARNESS, WORK, EVID = h2, os.path.join(outd, "work"), os.path.join(outd, "evidence")
        REPLAYS = os.path.join(WORK, "replays")
    violations = []      # (kind, message, replay dict)
    known_lines = []
    cov = {}
    try:
        if not alt:
            build_coq()
        if alt:
            pr = dict(theorems=[], discharged=0, axioms=[], ok=True, log="", secs=0.0)
        elif os.environ.get("VERIF_DEV_NO_PROOFS") and not os.path.exists(os.path.join(COQ, "Props", pid + ".v")):
            # development aid only (never used by the registered commands)
            pr = dict(theorems=[], discharged=0, axioms=[], ok=True, log="", secs=0.0)
        else:
            pr = check_props(pid)
        chk = run_coqchk(pid) if (tier == "thorough" and pr["ok"] and pr["theorems"] and not os.environ.get("VERIF_DEV_NO_COQCHK")) else None
        if not alt:
            build_driver()
        rc, hout = run_harness(pid, tier, seed, race=rule.get("race", False) and True)
        if rc != 0:
            if rule.get("race") and "DATA RACE" in hout:
                violations.append(("race", "the race detector reported conflicting accesses",
                                   dict(kind="race", failing_input=True, log=hout[-6000:], note="go test -race report; rerun with the recorded seed and tier")))
            else:
                raise Fail("harness failed (exit %d):\n%s" % (rc, hout[-4000:]))
        race_extra = None
        if rule.get("race_extra"):
            # a second pass of dedicated tests under the race detector (they write no case stream)
            env2 = dict(GOENV, VERIF_SEED=str(seed), VERIF_TIER=tier, VERIF_OUT=os.path.join(WORK, "race_" + pid), CGO_ENABLED="1")
            t1 = time.time()
            rc3, rout = sh(["go", "test", "-race", "-tags", "verif", "-run", "^%s$" % rule["race_extra"], "-count=1", "-timeout", "30m", "."],
                           cwd=HARNESS, env=env2, timeout=2400)
            race_extra = dict(test=rule["race_extra"], secs=round(time.time() - t1, 1), ok=(rc3 == 0))
            if rc3 != 0:
                if "DATA RACE" in rout:
                    violations.append(("race", "the race detector reported conflicting accesses in %s" % rule["race_extra"],
                                       dict(kind="race", failing_input=True, log=rout[-6000:], note="go test -race -run %s in /verif/harness" % rule["race_extra"])))
                elif "CONCURRENT-MISMATCH" in rout:
                    violations.append(("race", "a concurrent call returned another result than the same call alone: " + rout[rout.find("CONCURRENT-MISMATCH"):][:400],
                                       dict(kind="concurrent-mismatch", failing_input=True, log=rout[-6000:], note="go test -race -run %s in /verif/harness" % rule["race_extra"])))
                else:
                    raise Fail("race pass failed (exit %d):\n%s" % (rc3, rout[-4000:]))
        fresh = None
        if rule.get("fresh_tests"):
            # entry points asked as the FIRST thing of a fresh process (package harness/first
            # imports nothing but tree): one process per test
            env3 = dict(GOENV, VERIF_SEED=str(seed), VERIF_TIER=tier)
            sh(["go", "test", "-tags", "verif", "-c", "-o", os.path.join(WORK, "first.test"), "./first"], cwd=HARNESS, env=env3, timeout=1200)
            failed = []
            for name in rule["fresh_tests"]:
                rc4, fout = sh([os.path.join(WORK, "first.test"), "-test.run", "^%s$" % name, "-test.count=1"], cwd=HARNESS, env=env3, timeout=600)
                if rc4 != 0 or "ok" not in fout and "PASS" not in fout:
                    failed.append((name, fout[-1500:]))
            fresh = dict(tests=list(rule["fresh_tests"]), failed=[n for n, _ in failed])
            for name, fout in failed[:5]:
                violations.append(("first-use", "%s fails when it is the first use of the library in a fresh process: %s" % (name, fout.strip()[:400]),
                                   dict(kind="first-use", failing_input=True, log=fout, note="cd /verif/harness && go test -tags verif -count=1 -run '^%s$' ./first" % name)))
        run_driver(pid)
        xc = None
        if not alt and pid in COQEVAL_PROPS:
            # cross-check of extraction + OCaml glue: a sample of the cases evaluated inside Coq
            n = "2000" if tier == "thorough" else "200"
            rc2, xout = sh(["python3", os.path.join(ROOT, "tools", "coqeval.py"), pid, "--n", n, "--seed", str(seed)],
                           cwd=ROOT, timeout=3000)
            m = re.search(r"COQEVAL \S+ cases=(\d+) mismatches=(\d+)", xout)
            xc = dict(cases=int(m.group(1)), mismatches=int(m.group(2))) if m else dict(error=xout[-800:])
            if rc2 != 0:
                violations.append(("glue", "cases evaluated inside Coq (vm_compute) disagree with the extracted OCaml driver: " + xout[-600:],
                                   dict(kind="extraction-cross-check", log=xout[-3000:])))
        obs, order = read_stream(os.path.join(WORK, pid + ".obs"))
        mod, _ = read_stream(os.path.join(WORK, pid + ".model"))
        ins, _ = read_stream(os.path.join(WORK, pid + ".in"))
        if len(order) == 0:
            raise Fail("harness generated 0 cases")
        known = [k for k in load_known() if k["property"] == pid and k["status"] == "known"]
        res = props_rules.compare(pid, rule, order, ins, obs, mod, known)
        if replay and rp.get("case"):
            hit = [v for v in res["violations"] if v[2].get("case") == rp["case"]]
            print("REPLAY case %s: %s" % (rp["case"], "still fails" if hit else "no longer fails"))
            if rp["case"] in obs:
                print("  input:          " + ins.get(rp["case"], "")[:800])
                print("  implementation: " + obs[rp["case"]][:800])
                print("  model:          " + mod.get(rp["case"], "")[:800])
            res["violations"] = hit
        cov = res["coverage"]
        for kf in res["known_hits"]:
            known_lines.append(kf)
        for v in res["violations"]:
            violations.append(v)
        if chk is not None and not chk["ok"]:
            violations.append(("proof", "coqchk rejected Props/%s.vo: %s" % (pid, chk["tail"]),
                               dict(kind="proof-obligation", theorem_file="coq/Props/%s.v" % pid, log=chk["tail"])))
        if not pr["ok"]:
            violations.append(("proof", "theorem file Props/%s.v no longer checks: %s" % (pid, pr["log"][-1500:]),
                               dict(kind="proof-obligation", theorem_file="coq/Props/%s.v" % pid, log=pr["log"][-3000:])))
    except Fail as e:
        print("CHECK-ERROR %s: %s" % (pid, e))
        write_evidence(pid, tier, seed, dict(explanation="check could not run: " + str(e)[:500]), t0, 1, None)
        print("VIOLATION property=%s replay=%s no-failing-input-found" % (pid, write_replay(pid, seed, tier, dict(kind="check-error", error=str(e)[:4000]))))
        sys.exit(1)

    trusted = [
        "Coq 8.16.1 kernel (coqc); no native_compute",
        "axioms reported by Print Assumptions under the theorems of Props/%s.v: %s" % (pid, ", ".join(pr["axioms"]) or "none (closed under the global context)"),
        "extraction: ExtrOcamlBasic only, no Extract Constant / Extract Inductive of our own; OCaml 4.13.1",
        "unverified glue: ocaml/util.ml (SHA-256, hex, s-expressions), ocaml/driver*.ml, harness/*.go, check.py, props_rules.py",
        "modelled not verified: Go runtime, encoding/binary, crypto/sha256, io, strconv, math/big, uint256",
    ] + rule.get("trusted", [])
    cov.update(dict(
        obligations=len(pr["theorems"]), discharged=pr["discharged"],
        theorems=pr["theorems"],
        checker_cmd="cd coq && make -j16 && coqc -Q . Ztyp Props/%s.v   (then: go test -tags verif -run ^Test%s$ | ocaml/driver | compare)" % (pid, pid),
        trusted_base=trusted,
        coqc_seconds=round(pr["secs"], 2),
    ))
    cov["checked_tree"] = repo_fingerprint(pid)
    if race_extra:
        cov["race_pass"] = race_extra
    if fresh:
        cov["fresh_process_pass"] = fresh
    if xc is not None:
        cov["coq_cross_check"] = dict(xc, what="sample of this run's cases evaluated inside Coq by vm_compute (coq/Eval.v) and compared with the extracted OCaml driver's answers")
    if chk is not None:
        cov["coqchk"] = dict(ok=chk["ok"], seconds=chk["secs"], axioms=chk["axioms"] or ["<none>"])
    nviol = 0
    for kind, msg, rp in violations:
        nviol += 1
        path = write_replay(pid, seed, tier, rp)
        suffix = "" if rp.get("failing_input") else " no-failing-input-found"
        print("VIOLATION property=%s replay=%s%s" % (pid, path, suffix))
        print("  " + msg[:600])
        if nviol >= 5:
            break
    for k in known_lines:
        print("KNOWN-FINDING: property=%s %s" % (pid, k))
    write_evidence(pid, tier, seed, cov, t0, len(violations), rule)
    if violations:
        sys.exit(1)
    print("OK %s tier=%s seed=%d cases=%d theorems=%d/%d wall=%.1fs" % (
        pid, tier, seed, cov.get("evaluations", 0), pr["discharged"], len(pr["theorems"]), time.time() - t0))
    sys.exit(0)


def repo_fingerprint(pid):
    """What exactly was checked: /repo HEAD, dirty files, and hashes of the property's anchor files."""
    out = {}
    try:
        rc, head = sh(["git", "-C", "/repo", "rev-parse", "HEAD"])
        rc2, dirty = sh(["git", "-C", "/repo", "status", "--porcelain"])
        out["repo_head"] = head.strip()
        out["repo_dirty_files"] = [l[3:] for l in dirty.splitlines() if l.strip()][:20]
        files = []
        for l in open(os.path.join(ROOT, "properties.jsonl")):
            p = json.loads(l)
            if p["id"] == pid:
                files = p["anchors"]["files"]
        hs = {}
        for pat in files:
            for f in sorted(glob.glob(os.path.join("/repo", pat))):
                hs[os.path.relpath(f, "/repo")] = hashlib.sha1(open(f, "rb").read()).hexdigest()[:12]
        out["anchor_file_sha1"] = hs
    except Exception as e:  # informational only
        out["error"] = str(e)
    return out


def write_replay(pid, seed, tier, rp):
    os.makedirs(REPLAYS, exist_ok=True)
    rp = dict(rp, property=pid, seed=seed, tier=tier)
    h = hashlib.sha1(json.dumps(rp, sort_keys=True).encode()).hexdigest()[:10]
    path = os.path.join(REPLAYS, "%s_%s.json" % (pid, h))
    json.dump(rp, open(path, "w"), indent=1)
    return path


def write_evidence(pid, tier, seed, cov, t0, nviol, rule):
    os.makedirs(EVID, exist_ok=True)
    ev = dict(property_id=pid, tier=tier, seed=seed, level="proof", coverage=cov,
              assumptions=(rule or {}).get("assumptions", []) + [
                  "the Coq model is written by hand; it is tied to /repo by this run's correspondence (differential testing from VERIF_SEED), so agreement is established on the generated cases only",
                  "theorems hold for the model under the hypotheses visible in coq/Props/%s.v (e.g. small_params: lengths/limits <= 2^56, sizes_ok: sizes < 2^64, no_bool_seq: known finding D3)" % pid,
                  "Go runtime, standard library, allocator and memory model are not modelled"],
              wall_s=round(time.time() - t0, 2), violations=nviol)
    json.dump(ev, open(os.path.join(EVID, pid + ".json"), "w"), indent=1)


if __name__ == "__main__":
    main()
