#!/usr/bin/env python3
"""archive_seed.py <ID> <label> <detected-by> <needs...>: copies /tmp/seedout/<ID> into /verif/seeded/<label>"""
import sys, os, shutil, json, subprocess
sid, label, detected = sys.argv[1], sys.argv[2], sys.argv[3]
needs = " ".join(sys.argv[4:])
src = os.environ.get("SEED_SRC", "/tmp/seedout") + "/" + sid
dst = "/verif/seeded/" + label
os.makedirs(dst, exist_ok=True)
for f in ("patch.diff", "demo_test.go", "notes.md"):
    if os.path.exists(os.path.join(src, f)):
        shutil.copy(os.path.join(src, f), os.path.join(dst, f))
conf = subprocess.run(["/verif/tools/confirm_seed.sh", dst], capture_output=True, text=True).stdout.strip()
json.dump(dict(breaks=sid, origin="independent sub-agent given only the property text and a scratch worktree",
               needs=needs, confirmed=conf,
               ran="tools/confirm_seed.sh (build, existing suite, demo with/without the change in a scratch worktree); "
                   "tools/trypatch.sh patch.diff <checks> (git apply on /repo, quick checks, git checkout -- .)",
               detected_by=detected), open(os.path.join(dst, "meta.json"), "w"), indent=1)
print(label, conf)
