#!/usr/bin/env python3
"""mutants.py --sample N [--seed S] [--workers W] [--out DIR] [--files glob,...] [--ids file]

Measurement aid (not a registered check): applies small syntactic mutations (tools/mutgen) to
scratch copies of /repo, keeps those that still build and pass the repository's own test suite,
and runs the registered quick checks against each (check.py in VERIF_ALT_REPO mode: same Coq
development, same driver, private harness copy and work directory).  Reports, per mutant, which
check noticed it first, or that it survived.  Survivors are either equivalent mutants or gaps in
the generators / model; they are listed in DIR/survivors.txt for review.
Scratch copies live under DIR (default /tmp/mutrun) and are removed at the end."""
import sys, os, json, random, subprocess, shutil, time, fnmatch, argparse, threading, queue

ROOT = os.path.dirname(os.path.dirname(os.path.abspath(__file__)))
SNAP = None
GOENV = dict(os.environ, GOFLAGS="-mod=mod", GOPROXY="off", GOSUMDB="off", GOTOOLCHAIN="local")


def sh(cmd, cwd=None, env=None, timeout=600):
    try:
        p = subprocess.run(cmd, cwd=cwd, env=env, shell=isinstance(cmd, str), timeout=timeout,
                           stdout=subprocess.PIPE, stderr=subprocess.STDOUT)
        return p.returncode, p.stdout.decode("utf-8", "replace")
    except subprocess.TimeoutExpired:
        return 124, "TIMEOUT"


def prop_order():
    anchors = {}
    ids = []
    for l in open(os.path.join(ROOT, "properties.jsonl")):
        p = json.loads(l)
        ids.append(p["id"])
        anchors[p["id"]] = p["anchors"]["files"]
    return ids, anchors


def order_for(file, ids, anchors):
    first = [i for i in ids if any(fnmatch.fnmatch(file, a) or a == file for a in anchors[i])]
    # cheap and broad checks first among the rest
    rest = [i for i in ids if i not in first]
    return first + rest


def worker(wid, q, results, outdir, ids, anchors, lock):
    wdir = os.path.join(outdir, "w%d" % wid)
    repo = os.path.join(wdir, "repo")
    os.makedirs(wdir, exist_ok=True)
    if os.path.exists(repo):
        shutil.rmtree(repo)
    shutil.copytree("/repo", repo, ignore=shutil.ignore_patterns(".git"))
    while True:
        try:
            k, m = q.get_nowait()
        except queue.Empty:
            break
        t0 = time.time()
        path = os.path.join(repo, m["file"])
        orig = open(os.path.join("/repo", m["file"]), "rb").read()
        assert orig[m["offset"]:m["end"]].decode() == m["old"], m
        open(path, "wb").write(orig[:m["offset"]] + m["new"].encode() + orig[m["end"]:])
        verdict, detail = None, ""
        rc, out = sh(["go", "build", "./..."], cwd=repo, env=GOENV, timeout=300)
        if rc != 0:
            verdict = "nobuild"
        else:
            rc, out = sh(["go", "test", "-count=1", "-timeout", "240s", "./..."], cwd=repo, env=GOENV, timeout=400)
            if rc != 0:
                verdict = "tests"
        if verdict is None:
            env = dict(GOENV, VERIF_ALT_REPO=repo, VERIF_ALT_OUT=wdir, VERIF_SEED="1", VERIF_HARNESS_TIMEOUT="8m")
            for pid in order_for(m["file"], ids, anchors):
                rc, out = sh(["python3", os.path.join(SNAP, "check.py"), pid, "--tier", "quick"], cwd=SNAP, env=env, timeout=900)
                if rc == 124:
                    verdict, detail = "hang:" + pid, ""
                    # kill stray test binaries of this worker
                    sh("pkill -f %s/harness || true" % wdir)
                    break
                if rc != 0:
                    lines = [l for l in out.splitlines() if l.startswith(("VIOLATION", "CHECK-ERROR"))]
                    nxt = [l for l in out.splitlines() if l.startswith("  ")]
                    verdict = "killed:" + pid
                    detail = (lines[0] if lines else "") + " | " + (nxt[0][:300] if nxt else "")
                    break
            if verdict is None:
                verdict = "survived"
        open(path, "wb").write(orig)
        rec = dict(k=k, verdict=verdict, detail=detail, secs=round(time.time() - t0, 1), **m)
        with lock:
            results.append(rec)
            with open(os.path.join(outdir, "results.jsonl"), "a") as f:
                f.write(json.dumps(rec) + "\n")
            print("[%d] %-14s %s:%d %s %r->%r (%.0fs)" % (k, verdict, m["file"], m["line"], m["op"], m["old"][:30], m["new"][:30], rec["secs"]), flush=True)
    shutil.rmtree(wdir, ignore_errors=True)


def main():
    ap = argparse.ArgumentParser()
    ap.add_argument("--sample", type=int, default=50)
    ap.add_argument("--seed", type=int, default=1)
    ap.add_argument("--workers", type=int, default=12)
    ap.add_argument("--out", default="/tmp/mutrun")
    ap.add_argument("--files", default="")
    ap.add_argument("--ops", default="")
    ap.add_argument("--rerun", default="")
    ap.add_argument("--skip", default="")
    a = ap.parse_args()
    os.makedirs(a.out, exist_ok=True)
    rc, out = sh(["go", "build", "-o", os.path.join(a.out, "mutgen"), "."], cwd=os.path.join(ROOT, "tools", "mutgen"), env=GOENV)
    if rc != 0:
        print(out); sys.exit(2)
    rc, out = sh([os.path.join(a.out, "mutgen"), "/repo"])
    muts = [json.loads(l) for l in out.splitlines() if l.strip()]
    if a.files:
        pats = a.files.split(",")
        muts = [m for m in muts if any(fnmatch.fnmatch(m["file"], p) for p in pats)]
    if a.ops:
        ops = a.ops.split(",")
        muts = [m for m in muts if m["op"].split()[0] in ops]
    rnd = random.Random(a.seed)
    rnd.shuffle(muts)
    if a.rerun:
        # only the mutants that survived an earlier run
        keep = set()
        for l in open(a.rerun):
            r = json.loads(l)
            if r["verdict"] == "survived":
                keep.add((r["file"], r["offset"], r["new"]))
        muts = [m for m in muts if (m["file"], m["offset"], m["new"]) in keep]
    elif a.skip:
        done = set()
        for f in a.skip.split(","):
            for l in open(f):
                r = json.loads(l)
                done.add((r["file"], r["offset"], r["new"]))
        muts = [m for m in muts if (m["file"], m["offset"], m["new"]) not in done][:a.sample]
    else:
        muts = muts[:a.sample]
    # the Coq development and driver must be built once (alt mode reuses them)
    rc, out = sh(["python3", os.path.join(ROOT, "check.py"), "C16", "--tier", "quick"], cwd=ROOT, env=GOENV, timeout=3000)
    if rc != 0:
        print("baseline check failed:\n" + out[-2000:]); sys.exit(2)
    ids, anchors = prop_order()
    # snapshot of the checking machinery, so that work in /verif (harness edits, driver rebuilds)
    # does not disturb a running campaign
    global SNAP
    SNAP = os.path.join(a.out, "snap")
    if os.path.exists(SNAP):
        shutil.rmtree(SNAP)
    os.makedirs(os.path.join(SNAP, "ocaml"))
    for f in ("check.py", "props_rules.py", "known_findings.json", "properties.jsonl"):
        shutil.copy(os.path.join(ROOT, f), os.path.join(SNAP, f))
    shutil.copytree(os.path.join(ROOT, "harness"), os.path.join(SNAP, "harness"))
    shutil.copy(os.path.join(ROOT, "ocaml", "driver"), os.path.join(SNAP, "ocaml", "driver"))
    q = queue.Queue()
    for k, m in enumerate(muts):
        q.put((k, m))
    results, lock = [], threading.Lock()
    ths = [threading.Thread(target=worker, args=(w, q, results, a.out, ids, anchors, lock)) for w in range(a.workers)]
    for t in ths:
        t.start()
    for t in ths:
        t.join()
    import collections
    c = collections.Counter(r["verdict"].split(":")[0] for r in results)
    valid = c["killed"] + c["survived"] + c["hang"]
    print("SUMMARY total=%d nobuild=%d killed-by-repo-tests=%d | relevant=%d killed=%d hang=%d survived=%d" % (
        len(results), c["nobuild"], c["tests"], valid, c["killed"], c["hang"], c["survived"]))
    with open(os.path.join(a.out, "survivors.txt"), "w") as f:
        for r in sorted(results, key=lambda r: (r["file"], r["line"])):
            if r["verdict"] == "survived":
                f.write("%s:%d func %s  %s  %r -> %r\n" % (r["file"], r["line"], r["func"], r["op"], r["old"], r["new"]))


if __name__ == "__main__":
    main()
