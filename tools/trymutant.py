#!/usr/bin/env python3
"""trymutant.py <results.jsonl> <file:line:op-prefix> <property>... : re-applies one recorded mutant to a
scratch copy of /repo and runs the given quick checks against it (alt mode).  Development aid."""
import sys, os, json, shutil, subprocess
ROOT = os.path.dirname(os.path.dirname(os.path.abspath(__file__)))
res, key, props = sys.argv[1], sys.argv[2], sys.argv[3:]
f, line, op = key.split(":", 2)
m = [r for r in map(json.loads, open(res)) if r["file"] == f and str(r["line"]) == line and r["op"].startswith(op)]
assert m, "no such mutant"
m = m[0]
d = "/tmp/trymutant_%d" % os.getpid()
shutil.copytree("/repo", d + "/repo", ignore=shutil.ignore_patterns(".git"))
p = os.path.join(d, "repo", m["file"])
src = open(p, "rb").read()
assert src[m["offset"]:m["end"]].decode() == m["old"]
open(p, "wb").write(src[:m["offset"]] + m["new"].encode() + src[m["end"]:])
env = dict(os.environ, GOFLAGS="-mod=mod", GOPROXY="off", GOSUMDB="off", GOTOOLCHAIN="local",
           VERIF_ALT_REPO=d + "/repo", VERIF_ALT_OUT=d, VERIF_HARNESS_TIMEOUT="10m")
print("%s:%s %s %r -> %r" % (m["file"], m["line"], m["op"], m["old"], m["new"]))
for pid in props:
    o = subprocess.run(["python3", os.path.join(ROOT, "check.py"), pid, "--tier", "quick"], cwd=ROOT, env=env,
                       stdout=subprocess.PIPE, stderr=subprocess.STDOUT).stdout.decode()
    v = [l for l in o.splitlines() if l.startswith("VIOLATION")]
    nxt = [l for l in o.splitlines() if l.startswith("  case")]
    print("  %s: %s %s" % (pid, "DETECTED" if v else "missed", (nxt[0][:260] if nxt else "")))
shutil.rmtree(d, ignore_errors=True)
