module mutgen

go 1.16
