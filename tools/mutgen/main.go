// mutgen lists small syntactic mutations of the non-test Go files of a repository as JSON lines:
// {"file","offset","end","old","new","op","line"}.  Used by tools/mutants.py (a measurement
// aid: which realistic small changes do the registered checks notice?).
package main

import (
	"encoding/json"
	"fmt"
	"go/ast"
	"go/parser"
	"go/token"
	"os"
	"path/filepath"
	"strconv"
	"strings"
)

type mut struct {
	File   string `json:"file"`
	Offset int    `json:"offset"`
	End    int    `json:"end"`
	Old    string `json:"old"`
	New    string `json:"new"`
	Op     string `json:"op"`
	Line   int    `json:"line"`
	Func   string `json:"func"`
}

var binSwap = map[token.Token][]token.Token{
	token.LSS: {token.LEQ, token.GEQ}, token.LEQ: {token.LSS}, token.GTR: {token.GEQ, token.LEQ}, token.GEQ: {token.GTR},
	token.EQL: {token.NEQ}, token.NEQ: {token.EQL},
	token.ADD: {token.SUB}, token.SUB: {token.ADD}, token.MUL: {token.ADD}, token.QUO: {token.MUL}, token.REM: {token.QUO},
	token.SHL: {token.SHR}, token.SHR: {token.SHL}, token.AND: {token.OR}, token.OR: {token.AND}, token.XOR: {token.OR},
	token.LAND: {token.LOR}, token.LOR: {token.LAND}, token.AND_NOT: {token.AND},
}
var asgSwap = map[token.Token]token.Token{
	token.ADD_ASSIGN: token.SUB_ASSIGN, token.SUB_ASSIGN: token.ADD_ASSIGN, token.OR_ASSIGN: token.AND_ASSIGN,
	token.AND_ASSIGN: token.OR_ASSIGN, token.SHL_ASSIGN: token.SHR_ASSIGN, token.SHR_ASSIGN: token.SHL_ASSIGN,
	token.MUL_ASSIGN: token.ADD_ASSIGN, token.XOR_ASSIGN: token.OR_ASSIGN,
}

func main() {
	root := os.Args[1]
	enc := json.NewEncoder(os.Stdout)
	fset := token.NewFileSet()
	filepath.Walk(root, func(path string, info os.FileInfo, err error) error {
		if err != nil || info.IsDir() || !strings.HasSuffix(path, ".go") || strings.HasSuffix(path, "_test.go") {
			return nil
		}
		src, _ := os.ReadFile(path)
		f, err := parser.ParseFile(fset, path, src, 0)
		if err != nil {
			return nil
		}
		rel, _ := filepath.Rel(root, path)
		emit := func(pos, end token.Pos, nw, op, fn string) {
			o, e := fset.Position(pos).Offset, fset.Position(end).Offset
			enc.Encode(mut{File: rel, Offset: o, End: e, Old: string(src[o:e]), New: nw, Op: op, Line: fset.Position(pos).Line, Func: fn})
		}
		for _, d := range f.Decls {
			fd, ok := d.(*ast.FuncDecl)
			if !ok || fd.Body == nil {
				continue
			}
			fn := fd.Name.Name
			if fn == "String" || fn == "TerminalString" || fn == "TypeRepr" || fn == "Name" {
				continue
			}
			ast.Inspect(fd.Body, func(n ast.Node) bool {
				switch x := n.(type) {
				case *ast.CallExpr:
					// messages of fmt.Errorf / errors.New are not behaviour
					if se, ok := x.Fun.(*ast.SelectorExpr); ok {
						if id, ok := se.X.(*ast.Ident); ok && (id.Name == "fmt" || id.Name == "errors") {
							return false
						}
					}
				case *ast.BinaryExpr:
					for _, t := range binSwap[x.Op] {
						emit(x.OpPos, x.OpPos+token.Pos(len(x.Op.String())), t.String(), "bin "+x.Op.String()+"->"+t.String(), fn)
					}
				case *ast.AssignStmt:
					if t, ok := asgSwap[x.Tok]; ok {
						emit(x.TokPos, x.TokPos+token.Pos(len(x.Tok.String())), t.String(), "asg "+x.Tok.String()+"->"+t.String(), fn)
					}
				case *ast.IncDecStmt:
					t := token.DEC
					if x.Tok == token.DEC {
						t = token.INC
					}
					emit(x.TokPos, x.TokPos+2, t.String(), "incdec", fn)
				case *ast.BasicLit:
					if x.Kind == token.INT {
						v, err := strconv.ParseUint(x.Value, 0, 64)
						if err == nil && v < 1<<62 {
							emit(x.Pos(), x.End(), fmt.Sprint(v+1), "lit+1", fn)
							if v > 0 {
								emit(x.Pos(), x.End(), fmt.Sprint(v-1), "lit-1", fn)
							}
						}
					}
				case *ast.IfStmt:
					c := string(src[fset.Position(x.Cond.Pos()).Offset:fset.Position(x.Cond.End()).Offset])
					emit(x.Cond.Pos(), x.Cond.End(), "!("+c+")", "if-negate", fn)
					if x.Else == nil && len(x.Body.List) > 0 {
						if _, ok := x.Body.List[len(x.Body.List)-1].(*ast.ReturnStmt); ok {
							emit(x.Cond.Pos(), x.Cond.End(), "("+c+") && false", "guard-drop", fn)
						}
					}
				case *ast.Ident:
					if x.Name == "true" {
						emit(x.Pos(), x.End(), "false", "bool", fn)
					} else if x.Name == "false" {
						emit(x.Pos(), x.End(), "true", "bool", fn)
					}
				}
				return true
			})
		}
		return nil
	})
}
