#!/bin/sh
# trypatch.sh <patch.diff> <property>... : apply a patch to /repo, run the correspondence
# part of the given property checks (harness + driver + compare), undo the patch.
# Prints one line per property: DETECTED / MISSED.  Never leaves /repo modified.
P="$1"; shift
export GOFLAGS=-mod=mod GOPROXY=off GOSUMDB=off GOTOOLCHAIN=local
cd /repo || exit 2
if [ -n "$(git status --porcelain)" ]; then echo "repo not clean"; exit 2; fi
git apply "$P" || { echo "patch does not apply"; exit 2; }
( go build ./... && go test -count=1 ./... >/tmp/trypatch_tests.log 2>&1 ) || echo "NOTE: build or repo tests fail with this patch (see /tmp/trypatch_tests.log)"
cd /verif
for id in "$@"; do
  out=$(VERIF_OUT=/verif/work python3 check.py "$id" --tier "${TIER:-quick}" 2>&1)
  if echo "$out" | grep -q "^VIOLATION"; then
    echo "$id DETECTED: $(echo "$out" | grep -m1 -A1 '^VIOLATION' | tr '\n' ' ' | cut -c1-400)"
  else
    echo "$id MISSED: $(echo "$out" | tail -1 | cut -c1-200)"
  fi
done
git -C /repo checkout -- . 
git -C /repo status --porcelain | head -3
