#!/bin/sh
# confirm_seed.sh <dir with patch.diff + demo_test.go> : confirms in a scratch worktree that the
# change compiles, passes the existing suite, and that the demo fails with it and passes without.
D="$1"
export GOFLAGS=-mod=mod GOPROXY=off GOSUMDB=off GOTOOLCHAIN=local
W=/tmp/confirm_$$
git -C /repo worktree add --detach $W HEAD >/dev/null 2>&1 || exit 2
cd $W
place=$(head -3 "$D/demo_test.go" | grep -o 'place in: *[A-Za-z0-9_./-]*' | head -1 | sed 's/place in: *//')
[ -z "$place" ] && place="."
race=""; grep -qi "race" "$D/demo_test.go" && race="-race" && export CGO_ENABLED=1
names=$(grep -o "^func Test[A-Za-z0-9_]*" "$D/demo_test.go" | sed "s/func //" | tr "\n" "|" | sed "s/|$//")
git apply "$D/patch.diff" || { echo "CONFIRM: patch does not apply"; cd /; git -C /repo worktree remove --force $W; exit 1; }
b=ok; go build ./... >/dev/null 2>&1 || b=FAIL
t=ok; go test -count=1 ./... >/tmp/confirm_tests_$$.log 2>&1 || t=FAIL
cp "$D/demo_test.go" "$W/$place/zz_demo_test.go"
with=pass; ( cd "$W/$place" && go test $race -count=1 -run "$names" . >/tmp/confirm_with_$$.log 2>&1 ) || with=fail
rm -f "$W/$place/zz_demo_test.go"; git checkout -q -- . ; cp "$D/demo_test.go" "$W/$place/zz_demo_test.go"
without=pass; ( cd "$W/$place" && go test $race -count=1 -run "$names" . >/tmp/confirm_without_$$.log 2>&1 ) || without=fail
echo "CONFIRM build=$b suite=$t demo_with_change=$with demo_without_change=$without place=$place"
cd /; git -C /repo worktree remove --force $W; rm -f /tmp/confirm_*_$$.log
