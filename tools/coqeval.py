#!/usr/bin/env python3
"""coqeval.py <property> [--n N] [--seed S]

Cross-check of the extraction and of the OCaml glue: takes a sample of the cases of the last run
of <property> (work/<id>.in with the driver's answers in work/<id>.model), evaluates the SAME
model functions inside Coq (coq/Eval.v, vm_compute, one coqc call) and compares with what the
extracted OCaml driver printed.  Only operations that do not involve the hash function are
supported (C03, C10, C15, C16, C18, C19).  Prints "COQEVAL <id> cases=<n> mismatches=<k>" and
exits 1 on a mismatch (details in work/coqeval_<id>.json)."""
import sys, os, re, json, random, subprocess

ROOT = os.path.dirname(os.path.dirname(os.path.abspath(__file__)))
WORK = os.environ.get("VERIF_COQEVAL_WORK", os.path.join(ROOT, "work"))
COQ = os.path.join(ROOT, "coq")


# ---------- s-expressions ----------
def parse_sexp(s):
    toks = re.findall(r"\(|\)|[^\s()]+", s)
    pos = 0

    def rd():
        nonlocal pos
        t = toks[pos]; pos += 1
        if t == "(":
            l = []
            while toks[pos] != ")":
                l.append(rd())
            pos += 1
            return l
        return t
    return rd()


def N(h):
    return str(int(h, 16))


def ty(e):
    if e == "bool": return "TBool"
    if e == "root": return "TRoot"
    k = e[0]
    if k == "u": return "(TUint %s)" % N(e[1])
    if k == "bytes": return "(TBytes %s)" % N(e[1])
    if k == "bitvec": return "(TBitvector %s)" % N(e[1])
    if k == "bitlist": return "(TBitlist %s)" % N(e[1])
    if k == "vec": return "(TVector %s %s)" % (ty(e[1]), N(e[2]))
    if k == "list": return "(TList %s %s)" % (ty(e[1]), N(e[2]))
    if k == "cont": return "(TContainer [%s])" % "; ".join(ty(x) for x in e[1:])
    if k == "union": return "(TUnion false [%s])" % "; ".join(ty(x) for x in e[1:])
    if k == "unionn": return "(TUnion true [%s])" % "; ".join(ty(x) for x in e[1:])
    raise ValueError("bad type " + repr(e))


def nums(bs):
    return "[" + "; ".join(str(b) for b in bs) + "]"


def hexbytes(h):
    if h in ("-", ""):
        return []
    return list(bytes.fromhex(h))


def coq_bytes(h):
    return "(bytes_of %s)" % nums(hexbytes(h))


def kv(s):
    return dict(x.split("=", 1) for x in s.split(" ") if "=" in x)


def res_bytes(s):
    """'OK <hex>' / 'ERR' / 'PANIC' printed through rs hb"""
    if s == "ERR": return [0]
    if s == "PANIC": return [2]
    return [1] + hexbytes(s)


# ---------- per-op translation: (coq expression, expected observation) or None ----------
def tr(op, args, model):
    if op == "gindex":
        d = kv(model)
        lab, bl = d["lab"].split("/")
        opt = lambda h: [0] if h == "nil" else [1] + hexbytes(h)
        want = [[int(d["bi"], 16)], [int(d["bl"], 16)], [int(d["cd"], 16)], [int(d["anchor"], 16)],
                [int(d["subtree"], 16)], [int(d["left"], 16)], [int(d["right"], 16)], [int(d["parent"], 16)],
                [int(d["isleft"])], [int(d["isroot"])], [int(d["isclose"])], [int(d["depth"], 16)],
                [] if d["path"] == "-" else [int(c) for c in d["path"]],
                opt(d["le"]), opt(d["be"]), opt(lab), [int(bl, 16)]]
        return "obs_gindex %s" % N(args[0]), want
    if op == "togindex":
        want = [[0]] if model == "ERR" else ([[2]] if model == "PANIC" else [[1, int(model.split()[1], 16)]])
        return "obs_togindex %s %s" % (N(args[0]), N(args[1])), want
    if op == "bitfield":
        d = {}
        for part in re.split(r" (?=[a-z0-9]+=)", model):
            k, _, v = part.partition("=")
            d[k] = v
        unit = lambda s: {"OK": [1], "ERR": [0], "PANIC": [2]}[s]
        def rb(s):
            if s == "ERR": return [0]
            if s == "PANIC": return [2]
            return [1, int(s.split()[1])]
        def rbytes(s):
            if s == "ERR": return [0]
            if s == "PANIC": return [2]
            return [1] + hexbytes(s.split()[1])
        want = [unit(d["blcheck"]), [int(d["bllen"], 16)], [int(d["blones"], 16)], [int(d["iszero"])],
                unit(d["bvcheck"]), [int(d["bvones"], 16)], rb(d["get"]), rbytes(d["set1"]), rbytes(d["set0"])]
        return "obs_bitfield %s %s %s" % (coq_bytes(args[0]), N(args[1]), N(args[2])), want
    if op == "covers":
        want = [[0]] if model == "ERR" else ([[2]] if model == "PANIC" else [[1, int(model.split()[1])]])
        return "obs_covers %s %s" % (coq_bytes(args[0]), coq_bytes(args[1])), want
    if op == "c15":
        d = kv(model)
        if "overflow" in d:
            return None
        want = [[int(d["fixed"])], [int(d["size"], 16)], [int(d["min"], 16)], [int(d["max"], 16)],
                [int(d["spec_fixed"])], [int(d["spec_size"], 16)], [int(d["spec_min"], 16)], [int(d["spec_max"], 16)]]
        return "obs_c15 %s" % ty(parse_sexp(args[0])), want
    if op == "c10":
        d = kv(model)
        if len(args[1]) > 400:
            return None
        if d["res"] == "ERR": want = [[0]]
        elif d["res"] == "PANIC": want = [[2]]
        else: want = [[1], res_bytes(d["reenc"]), [int(d["valid"])]]
        return "obs_c10 %s %s" % (ty(parse_sexp(args[0])), coq_bytes(args[1])), want
    if op == "c03":
        d = kv(model)
        if len(args[1]) > 400:
            return None
        if d["res"] == "ERR": want = [[0]]
        elif d["res"] == "PANIC": want = [[2]]
        else: want = [[1], res_bytes(d["reser"])]
        return "obs_c03 %s %s" % (ty(parse_sexp(args[0])), coq_bytes(args[1])), want
    if op in ("uut", "uuj", "u256ut"):
        codes = {"ESYNTAX": [2], "ERANGE": [3], "EEMPTY": [4], "EQUOTE": [5], "EOTHER": [6]}
        want = [codes[model]] if model in codes else [[1, int(model.split()[1], 16)]]
        if op == "u256ut":
            return "obs_u256ut %s" % coq_bytes(args[0]), want
        return "obs_%s %s %s" % (op, N(args[0]), coq_bytes(args[1])), want
    if op == "umt":
        return "obs_umt %s" % N(args[0]), [hexbytes(model)]
    return None


def main():
    a = sys.argv[1:]
    pid = a[0]
    n, seed = 300, 1
    for i, x in enumerate(a):
        if x == "--n": n = int(a[i + 1])
        if x == "--seed": seed = int(a[i + 1])
    ins, mods = {}, {}
    for l in open(os.path.join(WORK, pid + ".in"), encoding="utf-8", errors="replace"):
        f = l.rstrip("\n").split("\t")
        ins[f[0]] = f[1:]
    for l in open(os.path.join(WORK, pid + ".model"), encoding="utf-8", errors="replace"):
        k, _, v = l.rstrip("\n").partition("\t")
        mods[k] = v
    ids = [k for k in ins if k in mods]
    random.Random(seed).shuffle(ids)
    cases = []
    for k in ids:
        try:
            t = tr(ins[k][0], ins[k][1:], mods[k])
        except Exception as e:  # unparsable driver output is itself a finding of this cross-check
            t = ("[]", [["unparsable: %s" % e]])
        if t is None:
            continue
        cases.append((k, t[0], t[1]))
        if len(cases) >= n:
            break
    if not cases:
        print("COQEVAL %s cases=0 (no supported operation)" % pid)
        return 0
    vfile = os.path.join(WORK, "coqeval_%s.v" % pid)
    with open(vfile, "w") as f:
        f.write("From Ztyp Require Import Base Types Eval.\nOpen Scope N_scope.\n")
        f.write("Definition cases : list (list (list N) * list (list N)) := [\n")
        f.write(";\n".join("  (%s, [%s])" % (e, "; ".join(nums(x) for x in w)) for _, e, w in cases))
        f.write("\n].\nDefinition mm := Eval vm_compute in (mismatches cases).\nPrint mm.\n")
    p = subprocess.run(["timeout", "1800", "coqc", "-Q", COQ, "Ztyp", vfile], stdout=subprocess.PIPE,
                       stderr=subprocess.STDOUT, cwd=WORK)
    out = p.stdout.decode()
    for ext in (".vo", ".vok", ".vos", ".glob"):
        try: os.remove(vfile[:-2] + ext)
        except FileNotFoundError: pass
    try: os.remove(os.path.join(WORK, ".coqeval_%s.aux" % pid))
    except FileNotFoundError: pass
    m = re.search(r"mm\s*=\s*(\[[^\]]*\])", out.replace("\n", " "))
    if p.returncode != 0 or not m:
        print("COQEVAL %s could not be evaluated:\n%s" % (pid, out[-1500:]))
        return 2
    bad = [int(x.strip().rstrip("%N")) for x in m.group(1).strip("[]").split(";") if x.strip()]
    rep = dict(property=pid, cases=len(cases), mismatches=[dict(case=cases[i][0], coq_expr=cases[i][1][:400], driver=mods[cases[i][0]][:400]) for i in bad])
    json.dump(rep, open(os.path.join(WORK, "coqeval_%s.json" % pid), "w"), indent=1)
    print("COQEVAL %s cases=%d mismatches=%d" % (pid, len(cases), len(bad)))
    for b in bad[:5]:
        print("  " + cases[b][0] + "  " + cases[b][1][:200] + "  driver: " + mods[cases[b][0]][:200])
    return 1 if bad else 0


if __name__ == "__main__":
    sys.exit(main())
