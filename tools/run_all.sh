#!/bin/sh
# run_all.sh [quick|thorough] : runs every registered check on the current /repo tree and prints one line each
cd /verif
TIER=${1:-quick}
for p in $(python3 -c "import json;print(' '.join(c['property_id'] for c in json.load(open('MANIFEST.json'))['checks']))"); do
  out=$(python3 check.py $p --tier $TIER 2>&1)
  rc=$?
  echo "$p rc=$rc $(echo "$out" | grep -E '^(OK|VIOLATION|KNOWN-FINDING|CHECK-ERROR)' | head -3 | cut -c1-160 | tr '\n' ' ')"
done
